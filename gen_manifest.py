#!/usr/bin/env python3
"""gen_manifest.py - regenerate MANIFEST.json from checks.py (single source of truth)"""
import json, os, sys
sys.path.insert(0, os.path.dirname(os.path.abspath(__file__)))
from checks import CHECKS, NOT_APPLICABLE, TECHNIQUE, LEVEL_TEXT, LEVEL_NOTE, DESIGN_REF

props = [json.loads(l)['id'] for l in open(os.path.join(os.path.dirname(os.path.abspath(__file__)), 'properties.jsonl'))]
checks = []
for p in props:
    if p not in CHECKS:
        continue
    c = CHECKS[p]
    checks.append(dict(
        property_id=p,
        quick_cmd='python3 vf.py check %s --tier quick' % p,
        thorough_cmd='python3 vf.py check %s --tier thorough' % p,
        evidence_file='/verif/evidence/%s.json' % p,
        replay_cmd_template='python3 vf.py replay {path}',
        engine='vf',
        level_claimed=dict(category=c['level'], text=LEVEL_TEXT[p], design_ref=DESIGN_REF.get(p, 'DESIGN.md section 4, ' + p)),
        level_note=LEVEL_NOTE.get(p, '; '.join(c.get('assumptions', []))),
        technique=TECHNIQUE[p]))
na = [dict(property_id=p, reason=NOT_APPLICABLE.get(p, 'check not built yet (work in progress); nothing is claimed for this property'))
      for p in props if p not in CHECKS]
m = dict(
    version=1,
    setup_cmd='python3 vf.py list >/dev/null && mkdir -p evidence replays',
    hooks=dict(guard='QLIBC_VERIF',
               enable='checks compile the qLibc sources of the working tree themselves with -DQLIBC_VERIF (no in-source hooks are needed: all interposition is link-time -Wl,--wrap)',
               baseline_off_cmd='cmake -G Ninja -B /repo/_build -S /repo >/dev/null && cmake --build /repo/_build && ctest --test-dir /repo/_build -j8 --timeout 900',
               source_commits=[], add_only=True),
    engines=[dict(name='vf', path='/verif/vf.py', serves_properties=[c['property_id'] for c in checks],
                  kind_free_text='runtime monitoring: generated/enumerated workloads executed on the real library under reference-model oracles, '
                                 'structural walkers, allocation ledger/failpoints, lock monitor, schedule injector and compiler sanitizers')],
    checks=checks,
    notes='Every check rebuilds qLibc from /repo working tree (override with QLIBC_REPO). exit 0 held / 1 VIOLATION / 2 inconclusive. '
          'Genuine defects found are repaired by fix: commits in /repo and listed in known_findings.txt.',
    not_applicable=na)
json.dump(m, open(os.path.join(os.path.dirname(os.path.abspath(__file__)), 'MANIFEST.json'), 'w'), indent=1)
print('MANIFEST.json: %d checks, %d not_applicable' % (len(checks), len(na)))
