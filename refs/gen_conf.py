#!/usr/bin/env python3
"""gen_conf.py - grammar-based generators + reference interpreters for C20 (and seed documents for C17).

Documents are generated as ABSTRACT structures; the text is rendered from the structure and the
expected result (INI: ordered entry list; Apache style: callback stream, return value, error line)
is computed from the structure by the reference semantics written from the documentation of
qconfig.c / qaconf.c - the reference never parses the text.

  gen_conf.py <outdir> <seed> <n_ini> <n_apache>

writes  <outdir>/iNNNNN.case (+ .conf, side files)  and  <outdir>/aNNNNN.case (+ .conf)
case-file lines:  key value...   ;  X <expected line>  (compared verbatim with what the C runner observes)
"""
import os, random, sys

BLANK = [' ', '\t']


def hx(b):
    if isinstance(b, str):
        b = b.encode('latin-1')
    return b.hex() if b else '-'


def trim(s):
    return s.strip(' \t\r\n')


# =========================================================================== INI
stats = {}


def expand(v, latest, env):
    """${name} / ${%ENV} substitution as documented: a reference is replaced by the value in effect; a reference
    inside a reference name is resolved first; ${} and ${%} are empty; an unset variable is empty; a name that is
    not defined stays as written."""
    pos = 0
    for _ in range(10000):
        i = v.find('${', pos)
        if i < 0:
            return v
        j = v.find('}', i + 2)
        k = v.find('${', i + 2)
        if j < 0:
            return v
        if 0 <= k < j:
            pos = k
            continue
        name = v[i + 2:j]
        if name == '':
            new = ''
        elif name[0] == '%':
            new = (env.get(name[1:]) or '') if len(name) > 1 else ''
        elif name in latest:
            new = latest[name]
        else:
            pos = j + 1
            continue
        v = v.replace(v[i:j + 1], new)
        pos = 0
    raise RuntimeError('expand: no fixpoint')


IDENT = 'abcdefghijklmnopqrstuvwxyzABCDEFGHIJKLMNOPQRSTUVWXYZ0123456789_-'
LIT = IDENT + ' \t/.,;:=[]()<>!?*+~^&|\'"\\`#%'      # no '$', '{', '}', '@', CR, LF


def ini_doc(rng, idx, outdir):
    sep = rng.choice('==:=')
    mode = rng.choice(['str', 'file', 'file'])
    crlf = rng.random() < 0.2
    env = {}
    for k in range(rng.randint(0, 3)):
        name = 'VFENV_%d_%d' % (idx % 7, k)
        env[name] = ''.join(rng.choice(IDENT + '/.: ') for _ in range(rng.randint(0, 12))).strip() if rng.random() < 0.75 else None
    entries = []            # expected (name, value)
    latest = {}             # name -> latest value (lookup backward = most recent definition)
    state = {'section': None}
    side_files = {}
    local = {}

    def gen_items(n, depth):
        lines = []
        for _ in range(n):
            c = rng.random()
            if c < 0.10:
                lines.append(rng.choice(['', ' ', '\t ']) + '#' + ''.join(rng.choice(LIT + '${}') for _ in range(rng.randint(0, 20))))
            elif c < 0.18:
                lines.append(''.join(rng.choice(BLANK) for _ in range(rng.randint(0, 3))))
            elif c < 0.30:
                if rng.random() < 0.25:
                    lines.append(rng.choice(['[]', ' [ ] ', '[\t]']))
                    state['section'] = None
                else:
                    sec = ''.join(rng.choice(IDENT) for _ in range(rng.randint(1, 6)))
                    pad = lambda: ''.join(rng.choice(BLANK) for _ in range(rng.randint(0, 2)))
                    lines.append(pad() + '[' + pad() + sec + pad() + ']' + pad())
                    state['section'] = sec
                    entries.append((sec + '.', sec)); latest[sec + '.'] = sec
            elif c < 0.36 and mode == 'file' and depth == 0:
                # @INCLUDE of a generated side file (at line start, acyclic, content ends with a newline)
                fname = 'i%05d_inc%d.conf' % (idx, len(side_files))
                sub = gen_items(rng.randint(0, 4), depth + 1)
                # the directive's own line end terminates the last included line, so a side file may lack a final newline
                side_files[fname] = '\n'.join(sub) + ('\n' if (rng.random() < 0.5 or not sub) else '')
                rest = rng.choice(['', ' ']) + fname + rng.choice(['', ' ', '\t'])
                q = rng.random()
                if q < 0.15:
                    # the same directive text inside a comment is not a directive (only a directive at line start is)
                    lines.append('# defaults: @INCLUDE ' + rest)
                lines.append('@INCLUDE ' + rest)
                if 0.15 <= q < 0.30:
                    lines.append(rng.choice(['#', ' # ']) + 'see @INCLUDE ' + rest)
                elif 0.30 <= q < 0.45 and rest.endswith(fname):
                    # a second side file whose name extends the first one's: the first directive's text is a prefix of this line
                    fname2 = fname + 'b'
                    sub2 = gen_items(rng.randint(1, 3), depth + 1)
                    side_files[fname2] = '\n'.join(sub2) + '\n'
                    lines.append('@INCLUDE ' + rest + 'b')
                stats['include_lookalikes'] = stats.get('include_lookalikes', 0) + (1 if q < 0.45 else 0)
            else:
                # entry
                known = local.get(state['section'], [])
                if known and rng.random() < 0.3:
                    name = rng.choice(known)                                   # redefinition of a key of this section
                else:
                    name = rng.choice(IDENT[:52]) + ''.join(rng.choice(IDENT + '. ') for _ in range(rng.randint(0, 7)))
                name = trim(name)
                if not name or sep in name or name[0] in '[#@':
                    name = 'k%d' % rng.randint(0, 9)
                # raw value text from parts
                raw = ''
                pad = lambda: ''.join(rng.choice(BLANK) for _ in range(rng.randint(0, 2)))
                for _p in range(rng.randint(0, 4)):
                    q = rng.random()
                    if q < 0.50:
                        raw += ''.join(rng.choice(LIT) for _ in range(rng.randint(0, 10)))
                    elif q < 0.72 and latest:
                        raw += '${' + rng.choice(list(latest)) + '}'
                    elif q < 0.80 and latest:
                        # nested reference ${a${h}}: a helper entry h holds the tail of an existing key's name
                        cands = [t for t in latest if len(t) >= 2]
                        t = rng.choice(cands) if cands else None
                        cut = rng.randint(1, len(t) - 1) if t else 0
                        if t and trim(t[cut:]) == t[cut:] and t[cut:]:
                            hname = 'nh%d' % len(entries)
                            hfull = (state['section'] + '.' + hname) if state['section'] else hname
                            lines.append(pad() + hname + pad() + sep + pad() + t[cut:] + pad())
                            local.setdefault(state['section'], []).append(hname)
                            entries.append((hfull, t[cut:])); latest[hfull] = t[cut:]
                            raw += '${' + t[:cut] + '${' + hfull + '}}'
                            stats['nested'] = stats.get('nested', 0) + 1
                    elif q < 0.86:
                        # a reference that does not resolve stays as written ('~' never occurs in a key)
                        raw += rng.choice(['${~undef%d}' % rng.randint(0, 9), '${}', '${%}', '${~u${~v}}'])
                    elif env:
                        raw += '${%' + rng.choice(list(env)) + '}'
                lines.append(pad() + name + pad() + sep + pad() + raw + pad())
                # reference semantics: split at first separator, trim both, expand references innermost-first with the
                # definitions in effect at this line (latest definition wins; unresolved references stay literal), store
                out = expand(trim(raw), latest, env)
                full = (state['section'] + '.' + name) if state['section'] else name
                local.setdefault(state['section'], []).append(name)
                entries.append((full, out)); latest[full] = out
        return lines

    def add_entry(ls, name, raw):
        ls.append(name + sep + raw)
        out = expand(trim(raw), latest, env)
        full = (state['section'] + '.' + name) if state['section'] else name
        local.setdefault(state['section'], []).append(name)
        entries.append((full, out)); latest[full] = out

    pre = []
    if idx % 20 == 11:
        # one value with many distinct references (more than 64), repeated references, and a long chain of definitions
        n = rng.choice([64, 65, 66, 100, 300])
        for i in range(n):
            add_entry(pre, 'w%d' % i, ''.join(rng.choice(IDENT) for _ in range(rng.randint(1, 3))))
        add_entry(pre, 'sum', ''.join('${w%d}' % i for i in range(n)))
        add_entry(pre, 'twice', ''.join('${w%d}${w%d}' % (i, (i * 7) % n) for i in range(0, n, 3)))
        add_entry(pre, 'c0', 'x')
        for i in range(1, rng.choice([70, 200])):
            add_entry(pre, 'c%d' % i, '${c%d}' % (i - 1) + rng.choice(IDENT))
        stats['many_references_documents'] = stats.get('many_references_documents', 0) + 1
    lines = pre + gen_items(rng.randint(0, 14), 0)
    nl = '\r\n' if crlf else '\n'
    text = nl.join(lines) + (nl if rng.random() < 0.8 else '')
    base = os.path.join(outdir, 'i%05d' % idx)
    with open(base + '.conf', 'w', newline='', encoding='latin-1') as f:
        f.write(text)
    for fn, content in side_files.items():
        with open(os.path.join(outdir, fn), 'w', newline='', encoding='latin-1') as f:
            f.write(content)
    with open(base + '.case', 'w', encoding='latin-1') as f:
        f.write('KIND ini\nSEP %d\nMODE %s\nDOC %s\n' % (ord(sep), mode, base + '.conf'))
        for k, v in env.items():
            f.write('ENV %s %s\n' % (k, hx(v) if v is not None else 'UNSET'))
        for n, v in entries:
            f.write('X E|%s|%s\n' % (hx(n), hx(v)))
        f.write('END\n')


# =========================================================================== Apache style
STR, INT, FLOAT, BOOL = 0, 1, 2, 3
TRUE_W = ['on', 'yes', 'true', '1']
FALSE_W = ['off', 'no', 'false', '0']
ARGCH = IDENT + ' \t/.,;:=[]()<>!?*+~^&|\'"\\`#%${}@'


def randcase(rng, s):
    return ''.join(c.upper() if rng.random() < 0.5 else c.lower() for c in s)


def gen_value(rng, t):
    if t == INT:
        return rng.choice(['', '-']) + str(rng.choice([0, 1, 7, 42, 65535, 2 ** 31, 10 ** 12, rng.randint(0, 9999)]))
    if t == FLOAT:
        if rng.random() < 0.4:
            return gen_value(rng, INT)
        return rng.choice(['', '-']) + str(rng.randint(0, 999)) + '.' + ''.join(rng.choice('0123456789') for _ in range(rng.randint(1, 4)))
    if t == BOOL:
        return randcase(rng, rng.choice(TRUE_W + FALSE_W))
    n = rng.randint(0, 9)
    return ''.join(rng.choice(ARGCH) for _ in range(n))


def bad_value(rng, t):
    if t == INT:
        return rng.choice(['abc', '1.5', '--1', '', '12x', '-', '1e3'])
    if t == FLOAT:
        return rng.choice(['abc', '1.', '.5', '1.2.3', '', '-', '-.5', '1,5'])
    return rng.choice(['maybe', '2', 'oui', '', 'tru', 'onn'])


def render_arg(rng, s):
    """one argument with a random quoting style; returns text"""
    bare_ok = s != '' and not any(c in ' \t' for c in s) and s[0] not in '\'"'
    style = rng.choice(['bare', 'sq', 'dq']) if bare_ok else rng.choice(['sq', 'dq'])
    if style == 'bare':
        return s
    q = "'" if style == 'sq' else '"'
    out = ''
    for c in s:
        if c == q or c == '\\' or (rng.random() < 0.05):
            out += '\\' + c          # inside quotes a backslash makes the next character literal
        else:
            out += c
    return q + out + q


def apache_doc(rng, idx, outdir, fault_wanted):
    flags = (1 if rng.random() < 0.5 else 0) | (2 if rng.random() < 0.4 else 0)
    ci = bool(flags & 1)
    defcb = rng.random() < 0.4
    ignore_unknown = bool(flags & 2)
    # ---- option table
    names = []
    def newname():
        while True:
            n = rng.choice(IDENT[:52]) + ''.join(rng.choice(IDENT) for _ in range(rng.randint(1, 7)))
            if n.lower() not in [x.lower() for x in names]:
                names.append(n); return n
    nsec = rng.randint(1, 4)
    secs = []
    opts = []
    sidbits = rng.sample([1, 2, 3, 4, 5, 6, 31, 32, 33, 47, 63] if rng.random() < 0.4 else [1, 2, 3, 4, 5, 6], 4)
    for k in range(nsec):
        # section ids are 64-bit masks (qaconf_option_t.sectionid is a uint64_t): low bits and, now and then, bits 31..63
        secs.append(dict(name=newname(), sid=(1 << (sidbits[k])) if rng.random() < 0.85 else 0))
    allsids = [s['sid'] for s in secs if s['sid']]

    def rand_scope(allow_all=True):
        c = rng.random()
        if c < 0.3 and allow_all:
            return 0
        if c < 0.55:
            return 1
        m = 0
        for sid in allsids:
            if rng.random() < 0.5:
                m |= sid
        if rng.random() < 0.4:
            m |= 1
        return m or 1

    def rand_take():
        n = rng.choice([0, 1, 1, 1, 2, 2, 3, 4, 5, 6, 7, 255])
        types = [rng.choice([STR, STR, INT, FLOAT, BOOL]) for _ in range(5)]
        deft = rng.choice([STR, STR, INT, FLOAT, BOOL])
        take = n
        for j, t in enumerate(types):
            if t == INT: take |= (1 << 8) << j
            elif t == FLOAT: take |= (1 << 16) << j
            elif t == BOOL: take |= (1 << 24) << j
        if deft == INT: take |= (1 << 8) << 5
        elif deft == FLOAT: take |= (1 << 16) << 5
        elif deft == BOOL: take |= (1 << 24) << 5
        return n, types, deft, take

    for s in secs:
        n, types, deft, take = rand_take()
        if n == 255 or n > 3:
            n = rng.randint(0, 2); take = (take & ~0xff) | n
        opts.append(dict(name=s['name'], n=n, types=types, deft=deft, take=take, cb=rng.random() < 0.8, sid=s['sid'], scope=rand_scope(), section=True))
    for k in range(rng.randint(3, 9)):
        n, types, deft, take = rand_take()
        opts.append(dict(name=newname(), n=n, types=types, deft=deft, take=take, cb=rng.random() < 0.8, sid=0, scope=rand_scope(), section=False))
    rng.shuffle(opts)

    def argtype(o, j):          # j = 1-based argument index; documented: first 5 individually, otherwise the default type
        if j <= 5:
            bit = 1 << (j - 1)
            if o['take'] & ((1 << 8) * bit): return INT
            if o['take'] & ((1 << 16) * bit): return FLOAT
            if o['take'] & ((1 << 24) * bit): return BOOL
        return o['deft']

    lines = []          # text lines
    stream = []         # expected callback lines
    state = dict(count=0, fault=None, longdoc=(idx % 12 == 7))
    fault_kinds = ['count', 'type', 'scope', 'unknown', 'unclosed', 'mismatch'] if fault_wanted else []
    fault_kind = rng.choice(fault_kinds) if fault_kinds else None
    if fault_kind == 'unknown' and (ignore_unknown or defcb):
        fault_kind = 'type'
    fault_at = rng.randint(1, 12) if fault_kind else -1     # n-th directive generated carries the fault
    ctr = dict(n=0)

    def pad():
        return ''.join(rng.choice(BLANK) for _ in range(rng.randint(0, 3)))

    def gap():
        return ''.join(rng.choice(BLANK) for _ in range(rng.randint(1, 3)))

    def noise():
        while rng.random() < 0.25:
            lines.append(pad() + ('#' + ''.join(rng.choice(ARGCH) for _ in range(rng.randint(0, 15))) if rng.random() < 0.5 else ''))

    def cbline(o_or_none, otype, sectionid, sections, level, argv, chain):
        who = 'U' if (o_or_none is not None and o_or_none['cb']) else 'D'
        if o_or_none is not None and not o_or_none['cb'] and not defcb:
            return
        if o_or_none is None and not defcb:
            return
        stream.append('X %s|%d|%d|%d|%d|%d|%s|P|%s' % (who, otype, sectionid, sections, level, len(argv), '|'.join(hx(a) for a in argv),
                                                      '|'.join(hx(c[0]) + ':' + (hx(c[1]) if len(c) > 1 else '-') for c in chain)))

    def allowed(o, sectionid):
        return o['scope'] == 0 or (o['scope'] & sectionid) != 0

    def emit(o, sectionid, sections, level, chain, forced_fault=None):
        """emit one directive of option o in the given scope; returns False when a fault ended the document"""
        ctr['n'] += 1
        fk = forced_fault or (fault_kind if ctr['n'] == fault_at else None)
        if fk == 'scope' and not forced_fault:
            fk = None                      # a scope fault needs an option that is not allowed here (handled by the caller)
        nargs = o['n'] if o['n'] != 255 else rng.randint(0, 9)
        if fk == 'count' and o['n'] != 255:
            nargs = o['n'] + rng.choice([-1, 1, 2]) if o['n'] > 0 else rng.choice([1, 2])
        elif fk == 'count':
            fk = 'type'
        vals = [gen_value(rng, argtype(o, j)) for j in range(1, nargs + 1)]
        # lines of any length are well-formed: now and then one string argument is 1000..6000 characters long (the line then crosses 4 KiB)
        if state.get('longdoc') and rng.random() < 0.3:
            strs = [j for j in range(1, nargs + 1) if argtype(o, j) == STR]
            if strs:
                vals[rng.choice(strs) - 1] = ''.join(rng.choice(ARGCH) for _ in range(rng.choice([1000, 4000, 4080, 4090, 4096, 4200, 6000])))
        badpos = None
        if fk == 'type':
            typed = [j for j in range(1, nargs + 1) if argtype(o, j) != STR]
            if typed:
                badpos = rng.choice(typed)
                vals[badpos - 1] = bad_value(rng, argtype(o, badpos))
            else:
                fk = None
        name_txt = randcase(rng, o['name']) if ci else o['name']
        body = name_txt + ''.join(gap() + render_arg(rng, v) for v in vals)
        noise()
        # blanks between the last argument and the closing bracket are layout, not an argument
        lines.append(pad() + ('<' + body + (pad() if rng.random() < 0.4 else '') + '>' if o['section'] else body) + pad())
        lineno = len(lines)
        if fk in ('count', 'type'):
            state['fault'] = lineno; return False
        if fk == 'scope':
            state['fault'] = lineno; return False
        argv = [name_txt] + [('1' if v.lower() in TRUE_W else '0') if argtype(o, j + 1) == BOOL else v for j, v in enumerate(vals)]
        state['count'] += 1
        cbline(o, 1 if o['section'] else 0, sectionid, sections, level, argv, chain)
        if o['section']:
            me = [name_txt] + vals[:1]
            me = (argv[0],) + ((argv[1],) if len(argv) > 1 else ())
            ok = body_items(o['sid'], sections | o['sid'], level + 1, [me] + chain, rng.randint(0, 4) if level < 5 else 0)
            if not ok:
                return False
            ctr['n'] += 1
            fk2 = fault_kind if ctr['n'] == fault_at else None
            noise()
            if fk2 == 'unclosed':
                state['fault'] = 'EOF'; return False
            close_name = randcase(rng, o['name']) if ci else name_txt
            if fk2 == 'mismatch':
                close_name = name_txt + 'x'
            lines.append(pad() + '</' + close_name + (pad() if rng.random() < 0.3 else '') + '>' + pad())
            if fk2 == 'mismatch':
                state['fault'] = len(lines); return False
            state['count'] += 1
            cbline(o, 2, sectionid, sections, level, argv, chain)        # the close callback receives the opening directive's data
        return True

    def body_items(sectionid, sections, level, chain, n):
        for _ in range(n):
            cands = [o for o in opts if allowed(o, sectionid)]
            wrong = [o for o in opts if not allowed(o, sectionid)]
            c = rng.random()
            if fault_kind == 'scope' and ctr['n'] + 1 == fault_at and wrong:
                if not emit(rng.choice(wrong), sectionid, sections, level, chain, 'scope'):
                    return False
                continue
            if c < 0.12 and (ignore_unknown or defcb or (fault_kind == 'unknown' and ctr['n'] + 1 == fault_at)):
                # unknown plain directive
                ctr['n'] += 1
                uname = 'zz' + ''.join(rng.choice(IDENT[:26]) for _ in range(4)) + str(rng.randint(0, 99))
                while uname.lower() in [x.lower() for x in names]:
                    uname += 'q'
                vals = [gen_value(rng, STR) for _ in range(rng.randint(0, 3))]
                noise()
                lines.append(pad() + uname + ''.join(gap() + render_arg(rng, v) for v in vals) + pad())
                if not (ignore_unknown or defcb):
                    state['fault'] = len(lines); return False
                state['count'] += 1
                cbline(None, 0, sectionid, sections, level, [uname] + vals, chain)
                continue
            if not cands:
                continue
            if not emit(rng.choice(cands), sectionid, sections, level, chain):
                return False
        return True

    ok = body_items(1, 1, 0, [], rng.randint(1, 10))
    if ok and fault_kind == 'unknown' and state['fault'] is None and not (ignore_unknown or defcb):
        ctr['n'] += 1
        lines.append('zzunknown' + str(rng.randint(0, 9)) + ' x')
        state['fault'] = len(lines)
    noise()
    crlf = rng.random() < 0.15
    nl = '\r\n' if crlf else '\n'
    text = nl.join(lines) + (nl if (rng.random() < 0.85 or not lines) else '')
    nlines = text.count('\n') + (0 if text.endswith('\n') or text == '' else 1)
    base = os.path.join(outdir, 'a%05d' % idx)
    with open(base + '.conf', 'w', newline='', encoding='latin-1') as f:
        f.write(text)
    with open(base + '.case', 'w', encoding='latin-1') as f:
        f.write('KIND apache\nFLAGS %d\nDEFCB %d\nDOC %s\n' % (flags, 1 if defcb else 0, base + '.conf'))
        for o in opts:
            f.write('OPT %s %d %d %d %d\n' % (o['name'], o['take'], 1 if o['cb'] else 0, o['sid'], o['scope']))
        if state['fault'] is None:
            f.write('RET %d\n' % state['count'])
            f.write('FAULT none\n')
        else:
            f.write('RET -1\n')
            f.write('ERRLINE %d\n' % (nlines if state['fault'] == 'EOF' else state['fault']))
            f.write('FAULT %s\n' % fault_kind)
        for s in stream:
            f.write(s + '\n')
        f.write('END\n')


def main():
    outdir, seed, n_ini, n_ap = sys.argv[1], int(sys.argv[2]), int(sys.argv[3]), int(sys.argv[4])
    os.makedirs(outdir, exist_ok=True)
    for i in range(n_ini):
        ini_doc(random.Random(seed * 1000003 + i), i, outdir)
    for i in range(n_ap):
        apache_doc(random.Random(seed * 7000003 + i), i, outdir, fault_wanted=(i % 3 == 2))


if __name__ == '__main__':
    main()
