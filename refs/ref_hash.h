#ifndef REF_HASH_H
#define REF_HASH_H
#include <stdint.h>
#include <stddef.h>
void ref_md5(const void *data, size_t n, unsigned char out[16]);
uint32_t ref_murmur3_32(const void *data, size_t n);
void ref_murmur3_128(const void *data, size_t n, unsigned char out[16]);
uint32_t ref_fnv1_32(const void *data, size_t n);
uint64_t ref_fnv1_64(const void *data, size_t n);
#endif
