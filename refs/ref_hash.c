/* ref_hash.c - independent reference implementations of the published hash
 * algorithms, written from their specifications (RFC 1321; Appleby's
 * MurmurHash3 description; the FNV reference). Byte-wise loads only: no
 * alignment or endianness assumptions. Used as oracles by C05/C06/C18.
 */
#include "ref_hash.h"
#include <string.h>

/* ------------------------------------------------------------------ MD5 (RFC 1321) */
static uint32_t rol32(uint32_t x, int c) { return (x << c) | (x >> (32 - c)); }

void ref_md5(const void *data, size_t n, unsigned char out[16]) {
    static const int S[64] = {7, 12, 17, 22, 7, 12, 17, 22, 7, 12, 17, 22, 7, 12, 17, 22,
                              5, 9, 14, 20, 5, 9, 14, 20, 5, 9, 14, 20, 5, 9, 14, 20,
                              4, 11, 16, 23, 4, 11, 16, 23, 4, 11, 16, 23, 4, 11, 16, 23,
                              6, 10, 15, 21, 6, 10, 15, 21, 6, 10, 15, 21, 6, 10, 15, 21};
    static uint32_t K[64]; static int init;
    if (!init) {
        /* K[i] = floor(2^32 * abs(sin(i+1))) - table from the RFC */
        static const uint32_t T[64] = {
            0xd76aa478, 0xe8c7b756, 0x242070db, 0xc1bdceee, 0xf57c0faf, 0x4787c62a, 0xa8304613, 0xfd469501,
            0x698098d8, 0x8b44f7af, 0xffff5bb1, 0x895cd7be, 0x6b901122, 0xfd987193, 0xa679438e, 0x49b40821,
            0xf61e2562, 0xc040b340, 0x265e5a51, 0xe9b6c7aa, 0xd62f105d, 0x02441453, 0xd8a1e681, 0xe7d3fbc8,
            0x21e1cde6, 0xc33707d6, 0xf4d50d87, 0x455a14ed, 0xa9e3e905, 0xfcefa3f8, 0x676f02d9, 0x8d2a4c8a,
            0xfffa3942, 0x8771f681, 0x6d9d6122, 0xfde5380c, 0xa4beea44, 0x4bdecfa9, 0xf6bb4b60, 0xbebfbc70,
            0x289b7ec6, 0xeaa127fa, 0xd4ef3085, 0x04881d05, 0xd9d4d039, 0xe6db99e5, 0x1fa27cf8, 0xc4ac5665,
            0xf4292244, 0x432aff97, 0xab9423a7, 0xfc93a039, 0x655b59c3, 0x8f0ccc92, 0xffeff47d, 0x85845dd1,
            0x6fa87e4f, 0xfe2ce6e0, 0xa3014314, 0x4e0811a1, 0xf7537e82, 0xbd3af235, 0x2ad7d2bb, 0xeb86d391};
        memcpy(K, T, sizeof K); init = 1;
    }
    uint32_t a0 = 0x67452301, b0 = 0xefcdab89, c0 = 0x98badcfe, d0 = 0x10325476;
    const unsigned char *p = (const unsigned char *)data;
    uint64_t bitlen = (uint64_t)n * 8;
    size_t total = ((n + 8) / 64 + 1) * 64;
    for (size_t off = 0; off < total; off += 64) {
        unsigned char blk[64];
        for (int i = 0; i < 64; i++) {
            size_t pos = off + (size_t)i;
            if (pos < n) blk[i] = p[pos];
            else if (pos == n) blk[i] = 0x80;
            else if (pos >= total - 8) blk[i] = (unsigned char)(bitlen >> (8 * (pos - (total - 8))));
            else blk[i] = 0;
        }
        uint32_t M[16];
        for (int i = 0; i < 16; i++)
            M[i] = (uint32_t)blk[4 * i] | (uint32_t)blk[4 * i + 1] << 8 | (uint32_t)blk[4 * i + 2] << 16 | (uint32_t)blk[4 * i + 3] << 24;
        uint32_t A = a0, B = b0, C = c0, D = d0;
        for (int i = 0; i < 64; i++) {
            uint32_t F; int g;
            if (i < 16) { F = (B & C) | (~B & D); g = i; }
            else if (i < 32) { F = (D & B) | (~D & C); g = (5 * i + 1) % 16; }
            else if (i < 48) { F = B ^ C ^ D; g = (3 * i + 5) % 16; }
            else { F = C ^ (B | ~D); g = (7 * i) % 16; }
            F = F + A + K[i] + M[g];
            A = D; D = C; C = B; B = B + rol32(F, S[i]);
        }
        a0 += A; b0 += B; c0 += C; d0 += D;
    }
    uint32_t r[4] = {a0, b0, c0, d0};
    for (int i = 0; i < 4; i++) for (int j = 0; j < 4; j++) out[4 * i + j] = (unsigned char)(r[i] >> (8 * j));
}

/* ------------------------------------------------------------------ MurmurHash3 x86_32, seed 0 */
uint32_t ref_murmur3_32(const void *data, size_t n) {
    const unsigned char *p = (const unsigned char *)data;
    uint32_t h = 0; /* seed */
    const uint32_t c1 = 0xcc9e2d51, c2 = 0x1b873593;
    size_t nblocks = n / 4;
    for (size_t i = 0; i < nblocks; i++) {
        uint32_t k = (uint32_t)p[4 * i] | (uint32_t)p[4 * i + 1] << 8 | (uint32_t)p[4 * i + 2] << 16 | (uint32_t)p[4 * i + 3] << 24;
        k *= c1; k = rol32(k, 15); k *= c2;
        h ^= k; h = rol32(h, 13); h = h * 5 + 0xe6546b64;
    }
    const unsigned char *t = p + nblocks * 4;
    uint32_t k = 0;
    switch (n & 3) {
    case 3: k ^= (uint32_t)t[2] << 16; /* fallthrough */
    case 2: k ^= (uint32_t)t[1] << 8;  /* fallthrough */
    case 1: k ^= t[0]; k *= c1; k = rol32(k, 15); k *= c2; h ^= k;
    }
    h ^= (uint32_t)n;
    h ^= h >> 16; h *= 0x85ebca6b; h ^= h >> 13; h *= 0xc2b2ae35; h ^= h >> 16;
    return h;
}

/* ------------------------------------------------------------------ MurmurHash3 x64_128, seed 0 */
static uint64_t rol64(uint64_t x, int c) { return (x << c) | (x >> (64 - c)); }
static uint64_t fmix64(uint64_t k) {
    k ^= k >> 33; k *= 0xff51afd7ed558ccdULL; k ^= k >> 33; k *= 0xc4ceb9fe1a85ec53ULL; k ^= k >> 33;
    return k;
}
static uint64_t le64(const unsigned char *p) {
    uint64_t v = 0;
    for (int i = 7; i >= 0; i--) v = v << 8 | p[i];
    return v;
}
void ref_murmur3_128(const void *data, size_t n, unsigned char out[16]) {
    const unsigned char *p = (const unsigned char *)data;
    uint64_t h1 = 0, h2 = 0;
    const uint64_t c1 = 0x87c37b91114253d5ULL, c2 = 0x4cf5ad432745937fULL;
    size_t nblocks = n / 16;
    for (size_t i = 0; i < nblocks; i++) {
        uint64_t k1 = le64(p + 16 * i), k2 = le64(p + 16 * i + 8);
        k1 *= c1; k1 = rol64(k1, 31); k1 *= c2; h1 ^= k1;
        h1 = rol64(h1, 27); h1 += h2; h1 = h1 * 5 + 0x52dce729;
        k2 *= c2; k2 = rol64(k2, 33); k2 *= c1; h2 ^= k2;
        h2 = rol64(h2, 31); h2 += h1; h2 = h2 * 5 + 0x38495ab5;
    }
    const unsigned char *t = p + nblocks * 16;
    uint64_t k1 = 0, k2 = 0;
    size_t r = n & 15;
    for (size_t i = r; i > 8; i--) k2 ^= (uint64_t)t[i - 1] << (8 * (i - 9));
    if (r > 8) { k2 *= c2; k2 = rol64(k2, 33); k2 *= c1; h2 ^= k2; }
    for (size_t i = (r > 8 ? 8 : r); i > 0; i--) k1 ^= (uint64_t)t[i - 1] << (8 * (i - 1));
    if (r > 0) { k1 *= c1; k1 = rol64(k1, 31); k1 *= c2; h1 ^= k1; }
    h1 ^= (uint64_t)n; h2 ^= (uint64_t)n;
    h1 += h2; h2 += h1;
    h1 = fmix64(h1); h2 = fmix64(h2);
    h1 += h2; h2 += h1;
    /* canonical output: h1 then h2, each little-endian (as the reference writes uint64_t[2] on x86) */
    for (int i = 0; i < 8; i++) { out[i] = (unsigned char)(h1 >> (8 * i)); out[8 + i] = (unsigned char)(h2 >> (8 * i)); }
}

/* ------------------------------------------------------------------ FNV-1 */
uint32_t ref_fnv1_32(const void *data, size_t n) {
    const unsigned char *p = (const unsigned char *)data;
    uint32_t h = 0x811C9DC5u;
    for (size_t i = 0; i < n; i++) { h *= 0x01000193u; h ^= p[i]; }
    return h;
}
uint64_t ref_fnv1_64(const void *data, size_t n) {
    const unsigned char *p = (const unsigned char *)data;
    uint64_t h = 0xCBF29CE484222325ULL;
    for (size_t i = 0; i < n; i++) { h *= 0x100000001B3ULL; h ^= p[i]; }
    return h;
}
