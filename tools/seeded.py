#!/usr/bin/env python3
"""seeded.py - confirm a seeded property break delivered by a sub-agent and run the checks against it.

  seeded.py verify <name> <agent-demo-dir>          confirm: compiles, test suite passes, demo fails with / passes without
  seeded.py detect <name> <patch.diff> <Cxx> [...]   run the quick checks of the given properties on a scratch tree with the patch
  seeded.py keep   <name> <agent-demo-dir> <prop> "<needs>" "<caught-by>"   store under /verif/seeded/<name>/

Everything happens in scratch git worktrees of /repo under /tmp/wt-eval (removed afterwards); /repo itself is never modified.
"""
import sys, os, subprocess, shutil, json, time

VERIF = os.path.dirname(os.path.dirname(os.path.abspath(__file__)))
REPO = '/repo'
BASE = '/tmp/wt-eval'


def sh(cmd, **kw):
    return subprocess.run(cmd, shell=isinstance(cmd, str), stdout=subprocess.PIPE, stderr=subprocess.STDOUT, text=True, **kw)


def worktree(name):
    d = os.path.join(BASE, name)
    if os.path.exists(d):
        sh(['git', '-C', REPO, 'worktree', 'remove', '--force', d])
        shutil.rmtree(d, ignore_errors=True)
    os.makedirs(BASE, exist_ok=True)
    r = sh(['git', '-C', REPO, 'worktree', 'add', '--detach', d, 'HEAD'])
    if r.returncode:
        raise SystemExit(r.stdout)
    return d


def drop(d):
    sh(['git', '-C', REPO, 'worktree', 'remove', '--force', d])
    shutil.rmtree(d, ignore_errors=True)


def build_and_test(d, run_tests, cflags=None):
    """default CMake build (what the test suite uses); cflags: rebuild the library with these C flags (changes that need an optimised build to manifest)"""
    if cflags:
        r = sh('rm -rf %s/_b && cmake -G Ninja -B %s/_b -S %s -DCMAKE_C_FLAGS="%s" >/dev/null && cmake --build %s/_b 2>&1 | tail -3' % (d, d, d, cflags, d))
    else:
        r = sh('rm -rf %s/_b && cmake -G Ninja -B %s/_b -S %s >/dev/null && cmake --build %s/_b 2>&1 | tail -3' % (d, d, d, d))
    if 'FAILED' in r.stdout or r.returncode:
        return False, r.stdout[-1500:]
    if run_tests:
        t = sh('ctest --test-dir %s/_b -j8 --timeout 900 2>&1 | tail -4' % d)
        return '100% tests passed' in t.stdout, t.stdout
    return True, ''


def demo(d, demo_c):
    exe = os.path.join(d, '_demo')
    r = sh(['gcc', '-std=gnu99', '-O0', '-g', '-I', d + '/include/qlibc', '-I', d + '/include', demo_c, '-o', exe, d + '/lib/libqlibcext-static.a', d + '/lib/libqlibc-static.a', '-lpthread', '-lm'])
    if r.returncode:
        return None, 'demo does not compile: ' + r.stdout[-800:]
    try:
        p = sh([exe], timeout=300, cwd=d)
        return p.returncode, p.stdout[-600:]
    except subprocess.TimeoutExpired:
        return 124, 'timeout'


def verify(name, ddir):
    """SEEDED_LIB_CFLAGS (e.g. "-O3 -DNDEBUG"): the change needs an optimised library to manifest - the test suite is still built and run with the
    default flags, the demonstration is linked against a library rebuilt with these flags (unmodified: must pass; patched: must fail)"""
    patch, demo_c = os.path.join(ddir, 'patch.diff'), os.path.join(ddir, 'demo.c')
    cflags = os.environ.get('SEEDED_LIB_CFLAGS')
    d = worktree(name + '-v')
    try:
        ok, out = build_and_test(d, False)
        rc0, o0 = demo(d, demo_c)
        print('unmodified: build ok=%s demo exit=%s %s' % (ok, rc0, o0.strip()[-200:]))
        if cflags:
            ok, out = build_and_test(d, False, cflags)
            rc0b, o0b = demo(d, demo_c)
            print('unmodified, library built with %s: build ok=%s demo exit=%s %s' % (cflags, ok, rc0b, o0b.strip()[-200:]))
            rc0 = rc0 or rc0b
        r = sh(['git', '-C', d, 'apply', patch])
        if r.returncode:
            print('patch does not apply:', r.stdout); return 1
        ok, out = build_and_test(d, True)
        print('patched: build+tests ok=%s %s' % (ok, out.strip()[-160:]))
        rc1, o1 = demo(d, demo_c)
        print('patched: demo exit=%s %s' % (rc1, o1.strip()[-300:]))
        if cflags:
            ok2, out2 = build_and_test(d, False, cflags)
            rc1, o1 = demo(d, demo_c)
            print('patched, library built with %s: build ok=%s demo exit=%s %s' % (cflags, ok2, rc1, o1.strip()[-300:]))
        good = ok and rc0 == 0 and rc1 not in (0, None)
        print('CONFIRMED' if good else 'NOT CONFIRMED')
        return 0 if good else 1
    finally:
        drop(d)


def detect(name, patch, props):
    d = worktree(name + '-d')
    try:
        r = sh(['git', '-C', d, 'apply', patch])
        if r.returncode:
            r = sh(['git', '-C', d, 'apply', '-3', patch])    # a later fix in /repo touched neighbouring lines
        if r.returncode:
            print('patch does not apply:', r.stdout); return 2
        env = dict(os.environ, QLIBC_REPO=d, VF_EVIDENCE_DIR=os.path.join(BASE, 'evidence-' + name))
        os.makedirs(env['VF_EVIDENCE_DIR'], exist_ok=True)
        res = {}
        for p in props:
            t = time.time()
            r = sh([sys.executable, os.path.join(VERIF, 'vf.py'), 'check', p, '--tier', 'quick'], env=env, cwd=VERIF)
            lines = [l for l in r.stdout.split('\n') if l.startswith('VIOLATION') or l.startswith('  key=') or l.startswith('INCONCLUSIVE')]
            res[p] = r.returncode
            print('%s exit=%d (%.0fs) %s' % (p, r.returncode, time.time() - t, ' '.join(l.strip()[:170] for l in lines[:4])))
        shutil.rmtree(env['VF_EVIDENCE_DIR'], ignore_errors=True)
        return 0
    finally:
        drop(d)


def keep(name, ddir, prop, needs, caught):
    out = os.path.join(VERIF, 'seeded', name)
    os.makedirs(out, exist_ok=True)
    for f in ('patch.diff', 'demo.c', 'README.txt'):
        if os.path.exists(os.path.join(ddir, f)):
            shutil.copy(os.path.join(ddir, f), out)
    meta = dict(id=name, breaks_property=prop, needs_to_manifest=needs, origin='fresh sub-agent given only the property text and a scratch worktree',
                confirmed_by='tools/seeded.py verify: builds, unedited test suite passes with the change, demo exits non-zero with the change and 0 without',
                caught_by=caught, ran='tools/seeded.py detect %s seeded/%s/patch.diff ...' % (name, name))
    json.dump(meta, open(os.path.join(out, 'meta.json'), 'w'), indent=1)
    print('kept', out)


if __name__ == '__main__':
    a = sys.argv[1:]
    if a and a[0] == 'verify':
        sys.exit(verify(a[1], a[2]))
    if a and a[0] == 'detect':
        sys.exit(detect(a[1], a[2], a[3:]))
    if a and a[0] == 'keep':
        sys.exit(keep(a[1], a[2], a[3], a[4], a[5]) or 0)
    print(__doc__); sys.exit(2)
