/* distcount.c - number of distinct 64-bit values in the given files (used by vf.py for large distinct-hash sets) */
#include <stdio.h>
#include <stdlib.h>
#include <stdint.h>
static int cmp(const void *a, const void *b) { uint64_t x = *(const uint64_t *)a, y = *(const uint64_t *)b; return x < y ? -1 : x > y; }
int main(int argc, char **argv) {
    size_t cap = 1 << 20, n = 0; uint64_t *v = malloc(cap * 8);
    for (int i = 1; i < argc; i++) { FILE *f = fopen(argv[i], "rb"); if (!f) continue; size_t r;
        while (1) { if (n + 65536 > cap) { cap *= 2; v = realloc(v, cap * 8); if (!v) return 2; } r = fread(v + n, 8, 65536, f); n += r; if (r < 65536) break; } fclose(f); }
    qsort(v, n, 8, cmp);
    size_t d = 0; for (size_t i = 0; i < n; i++) if (i == 0 || v[i] != v[i - 1]) d++;
    printf("%zu\n", d); return 0;
}
