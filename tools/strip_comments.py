#!/usr/bin/env python3
"""print a C file without comments (keeps line numbers)"""
import re, sys
s = open(sys.argv[1]).read()
def repl(m):
    t = m.group(0)
    if t.startswith('/'):
        return '\n' * t.count('\n')
    return t
s = re.sub(r'//[^\n]*|/\*.*?\*/|"(?:\\.|[^"\\])*"|\'(?:\\.|[^\'\\])*\'', repl, s, flags=re.S)
lo = int(sys.argv[2]) if len(sys.argv) > 2 else 1
hi = int(sys.argv[3]) if len(sys.argv) > 3 else 10**9
blank = 0
for i, ln in enumerate(s.split('\n'), 1):
    if i < lo or i > hi: continue
    if not ln.strip():
        blank += 1
        if blank > 1: continue
    else: blank = 0
    print('%5d  %s' % (i, ln))
