#!/usr/bin/env python3
"""seeded_regress.py - re-run the quick check of the targeted property against every kept seeded break.

  seeded_regress.py [Sxx ...]        default: all of seeded/*/

For each seeded/<id>/: a scratch worktree of /repo HEAD under /tmp/wt-eval, `git apply patch.diff`, then
`vf.py check <breaks_property> --tier quick` with QLIBC_REPO pointing at it.  Prints one line per break:
caught / MISSED / patch-does-not-apply (a later fix in /repo touched the same lines).  /repo is never modified.
"""
import sys, os, json, subprocess, shutil, time, glob
VERIF = os.path.dirname(os.path.dirname(os.path.abspath(__file__)))
BASE = '/tmp/wt-eval'
def sh(cmd, **kw): return subprocess.run(cmd, stdout=subprocess.PIPE, stderr=subprocess.STDOUT, text=True, **kw)
ids = sys.argv[1:] or sorted(os.path.basename(os.path.dirname(p)) for p in glob.glob(os.path.join(VERIF, 'seeded', '*', 'meta.json')))
res = {}
for sid in ids:
    meta = json.load(open(os.path.join(VERIF, 'seeded', sid, 'meta.json')))
    prop = meta.get('regress_property', meta['breaks_property']); patch = os.path.join(VERIF, 'seeded', sid, 'patch.diff')
    d = os.path.join(BASE, 'reg-' + sid)
    sh(['git', '-C', '/repo', 'worktree', 'remove', '--force', d]); shutil.rmtree(d, ignore_errors=True); os.makedirs(BASE, exist_ok=True)
    sh(['git', '-C', '/repo', 'worktree', 'add', '--detach', d, 'HEAD'])
    try:
        r = sh(['git', '-C', d, 'apply', patch])
        if r.returncode:
            r = sh(['git', '-C', d, 'apply', '-3', patch])
        if r.returncode:
            res[sid] = 'patch-does-not-apply'; print(sid, prop, res[sid], flush=True); continue
        ev = os.path.join(BASE, 'ev-' + sid); os.makedirs(ev, exist_ok=True)
        t = time.time()
        r = sh([sys.executable, os.path.join(VERIF, 'vf.py'), 'check', prop, '--tier', 'quick'], env=dict(os.environ, QLIBC_REPO=d, VF_EVIDENCE_DIR=ev), cwd=VERIF)
        shutil.rmtree(ev, ignore_errors=True)
        keys = [l.strip()[:110] for l in r.stdout.split('\n') if l.strip().startswith('key=')]
        res[sid] = 'caught' if r.returncode == 1 else ('MISSED' if r.returncode == 0 else 'harness-error rc=%d' % r.returncode)
        print(sid, prop, res[sid], '(%.0fs)' % (time.time() - t), keys[0] if keys else '', flush=True)
    finally:
        sh(['git', '-C', '/repo', 'worktree', 'remove', '--force', d]); shutil.rmtree(d, ignore_errors=True)
import collections
print(collections.Counter(res.values()))
