#!/usr/bin/env python3
"""selftest_mutants.py - hand-written property breaks (the list of DESIGN.md section 7) applied one at a
time to a scratch worktree of /repo; the quick check of the targeted property must report a VIOLATION.
Not part of any registered check.   usage: selftest_mutants.py [name-substring ...] [--with-tests]
"""
import sys, os, subprocess, shutil, time

VERIF = os.path.dirname(os.path.dirname(os.path.abspath(__file__)))
REPO = '/repo'
W = '/tmp/wt-eval/selftest'

M = [
    # name, file, old, new, properties expected to fire
    ('tree-rotate-left-colour', 'src/containers/qtreetbl.c', "    x->left = obj;\n    x->red = x->left->red;\n", "    x->left = obj;\n", ['C02']),
    ('tree-move-red-left-no-extra-rotation', 'src/containers/qtreetbl.c', "        if (is_red(obj->right->right)) {\n            obj->right = rotate_left(obj->right);\n        }\n", "", ['C02']),
    ('tree-remove-min-no-fix', 'src/containers/qtreetbl.c', "    obj->left = remove_min(obj->left);\n    return fix(obj);", "    obj->left = remove_min(obj->left);\n    return obj;", ['C02']),
    ('tree-nearest-no-fallback-to-min', 'src/containers/qtreetbl.c', "        if (obj == NULL) {\n            obj = lastobj;\n        }\n", "", ['C04']),
    ('tree-replace-keeps-old-size', 'src/containers/qtreetbl.c', "            obj->data = copydata;\n            obj->datasize = (copydata != NULL) ? datasize : 0;\n", "            obj->data = copydata;\n", ['C01']),
    ('hashtbl-remove-head-drops-chain', 'src/containers/qhashtbl.c', "            if (prev == NULL)\n                tbl->slots[idx] = obj->next;", "            if (prev == NULL)\n                tbl->slots[idx] = NULL;", ['C05']),
    ('hashtbl-walk-skips-slot', 'src/containers/qhashtbl.c', "        idx = (obj->hash % tbl->range) + 1;", "        idx = (obj->hash % tbl->range) + 2;", ['C05']),
    ('hashtbl-get-newmem-internal-for-large', 'src/containers/qhashtbl.c', "        if (newmem == false) {\n            data = obj->data;", "        if (newmem == false || obj->size > 100) {\n            data = obj->data;", ['C12']),
    ('hasharr-collision-count-not-incremented', 'src/containers/qhasharr.c', "            // increase counter from leading slot\n            tblslots[hash].count++;\n", "", ['C06', 'C07']),
    ('hasharr-long-key-md5-not-compared', 'src/containers/qhasharr.c', "                        Q_HASHARR_NAMESIZE)\n                                && !memcmp(namemd5,\n                                           tblslots[idx].data.pair.namemd5,\n                                           16)) {", "                        Q_HASHARR_NAMESIZE)) {", ['C06']),
    ('hasharr-rollback-keeps-usedslots', 'src/containers/qhasharr.c', "            if (tmpidx < 0) {\n                remove_data(tbl, idx);", "            if (tmpidx < 0) {\n                remove_slot(tbl, idx); tbldata->num--;", ['C06', 'C07']),
    ('listtbl-lookup-direction-inverted', 'src/containers/qlisttbl.c', "    qlisttbl_obj_t *obj = (tbl->lookupforward) ? tbl->first : tbl->last;\n    while (obj != NULL) {\n        // name string will be compared only if the hash matches.", "    qlisttbl_obj_t *obj = (tbl->lookupforward) ? tbl->last : tbl->first;\n    while (obj != NULL) {\n        // name string will be compared only if the hash matches.", ['C08']),
    ('listtbl-sort-unstable', 'src/containers/qlisttbl.c', "            if (tbl->namecmp(obj1->name, obj2->name) > 0) {", "            if (tbl->namecmp(obj1->name, obj2->name) >= 0) {", ['C08']),
    ('listtbl-removeobj-last-not-updated', 'src/containers/qlisttbl.c', "    if (next == NULL) tbl->last = prev; // if the object is last one\n    else next->prev = prev;  // not the first one", "    if (next != NULL) next->prev = prev;  // not the first one", ['C08']),
    ('list-insert-index-off-by-one', 'src/containers/qlist.c', "        index = (list->num + index) + 1;  // -1 is same as addlast()", "        index = (list->num + index);  // -1 is same as addlast()", ['C09']),
    ('list-pop-keeps-datasum', 'src/containers/qlist.c', "    list->datasum -= obj->size;\n", "", ['C09']),
    ('list-reverse-keeps-ends', 'src/containers/qlist.c', "    obj = list->first;\n    list->first = list->last;\n    list->last = obj;\n", "", ['C09']),
    ('stack-push-at-back', 'src/containers/qstack.c', "    return stack->list->addfirst(stack->list, data, size);", "    return stack->list->addlast(stack->list, data, size);", ['C09']),
    ('vector-shift-one-byte-short', 'src/containers/qvector.c', "    size_t size = (vector->num - (index + 1)) * vector->objsize;", "    size_t size = (vector->num - (index + 1)) * vector->objsize - ((vector->objsize > 1 && vector->num > (size_t)(index + 1)) ? 1 : 0);", ['C10']),
    ('vector-getnext-off-by-one', 'src/containers/qvector.c', "    if (obj->index >= vector->num) {", "    if (obj->index > vector->num) {", ['C10', 'C11']),
    ('list-addat-lock-removed', 'src/containers/qlist.c', "    qlist_lock(list);\n\n    // check maximum number of allowed elements if set", "    // check maximum number of allowed elements if set", ['C13']),
    ('list-popat-unlock-before-unlink', 'src/containers/qlist.c', "    // remove if necessary\n    if (remove == true) {", "    qlist_unlock(list);\n    // remove if necessary\n    if (remove == true) {", ['C13', 'C14']),
    ('list-addat-full-path-keeps-lock', 'src/containers/qlist.c', "        errno = ENOBUFS;\n        qlist_unlock(list);\n        return false;", "        errno = ENOBUFS;\n        return false;", ['C14']),
    ('tree-find-min-keeps-lock-on-empty', 'src/containers/qtreetbl.c', "    qtreetbl_obj_t *obj = find_min(tbl->root);\n    if (obj == NULL) {\n        errno = ENOENT;\n        qtreetbl_unlock(tbl);\n        return NULL;", "    qtreetbl_obj_t *obj = find_min(tbl->root);\n    if (obj == NULL) {\n        errno = ENOENT;\n        return NULL;", ['C14']),
    ('list-count-before-alloc', 'src/containers/qlist.c', "    // duplicate object\n    void *dup_data = malloc(size);\n    if (dup_data == NULL) {", "    // duplicate object\n    list->num++; list->num--; list->datasum += size;\n    void *dup_data = malloc(size);\n    if (dup_data == NULL) {", ['C15']),
    ('hashtbl-put-replace-frees-before-alloc-check', 'src/containers/qhashtbl.c', "    char *dupname = strdup(name);\n    void *dupdata = malloc(size);\n    if (dupname == NULL || dupdata == NULL) {", "    char *dupname = strdup(name);\n    void *dupdata = malloc(size);\n    if (obj != NULL && dupdata == NULL) { free(obj->data); obj->data = NULL; obj->size = 0; }\n    if (dupname == NULL || dupdata == NULL) {", ['C15']),
    ('base64-padding-for-two-byte-tail', 'src/utilities/qencode.c', "                (nIdxOfThree >= 1) ?\n                        B64CHARTBL[(((szIn[1] & 0x0F) << 2)", "                (nIdxOfThree >= 2) ?\n                        B64CHARTBL[(((szIn[1] & 0x0F) << 2)", ['C16']),
    ('url-plus-literal', 'src/utilities/qencode.c', "        00 , 0 , 0 , 0 , 0 , 0 , 0 , 0 , 0 , 0 , 0 , 0 , 0 ,'-','.','/', // 20-2F", "        00 , 0 , 0 , 0 , 0 , 0 , 0 , 0 , 0 , 0 , 0 ,'+', 0 ,'-','.','/', // 20-2F", ['C16']),
    ('hex-decode-uppercase-table', 'src/utilities/qencode.c', "        0, 10, 11, 12, 13, 14, 15,  0,  0,  0,  0,  0,  0,  0,  0,  0, // 40-4F", "        0, 10, 11, 12, 13, 14,  0,  0,  0,  0,  0,  0,  0,  0,  0,  0, // 40-4F", ['C16']),
    ('url-decode-percent-unchecked', 'src/utilities/qencode.c', "                if (isxdigit((unsigned char) *(pEncPt + 1))\n                        && isxdigit((unsigned char) *(pEncPt + 2))) {", "                if (1) {", ['C17']),
    ('base64-decode-table-overrun', 'src/utilities/qencode.c', "        char cByte = B64MAPTBL[(unsigned char) (*pEncPt)];", "        char cByte = B64MAPTBL[(unsigned char) (*pEncPt) + ((unsigned char) (*pEncPt) == 0xFF ? 4 : 0)];", ['C17']),
    ('murmur32-tail-byte-order', 'src/utilities/qhash.c', "            k ^= tail[2] << 16;\n        case 2:\n            k ^= tail[1] << 8;", "            k ^= tail[2] << 8;\n        case 2:\n            k ^= tail[1] << 16;", ['C18']),
    ('fnv64-wrong-shift', 'src/utilities/qhash.c', "        h += (h << 1) + (h << 4) + (h << 5) +\n        (h << 7) + (h << 8) + (h << 40);", "        h += (h << 1) + (h << 4) + (h << 5) +\n        (h << 7) + (h << 8) + (h << 41);", ['C18']),
    ('trim-tail-misses-cr', 'src/utilities/qstring.c', "                    && (*se == ' ' || *se == '\\t' || *se == '\\r' || *se == '\\n');\n            se--)\n        ;\n    se++;\n    *se = '\\0';\n\n    if (ss > str) {", "                    && (*se == ' ' || *se == '\\t' || *se == '\\n');\n            se--)\n        ;\n    se++;\n    *se = '\\0';\n\n    if (ss > str) {", ['C19']),
    ('replace-bound-one-short', 'src/utilities/qstring.c', "                    maxstrlen += wordlen - tokstrlen;", "                    maxstrlen += wordlen - tokstrlen - 1;", ['C19']),
    ('strcpy-clamp-off-by-one', 'src/utilities/qstring.c', "    if (nbytes >= size)\n        nbytes = size - 1;", "    if (nbytes > size)\n        nbytes = size - 1;", ['C19']),
    ('ini-section-prefix-without-dot', 'src/extensions/qconfig.c', 'char *newname = qstrdupf("%s.%s", section, name);', 'char *newname = qstrdupf("%s%s", section, name);', ['C20']),
    ('apache-type-bit-shifted', 'src/extensions/qaconf.c', "                        else if (option->take & (QAC_A1_INT << (j - 1)))", "                        else if (option->take & (QAC_A1_INT << j))", ['C20']),
    ('apache-close-callback-gets-close-line', 'src/extensions/qaconf.c', "                        cberrmsg = usercb(cbdata_parent, qaconf->userdata);", "                        cberrmsg = usercb(cbdata, qaconf->userdata);", ['C20']),
    ('apache-count-skips-section-lines', 'src/extensions/qaconf.c', "            if (optcount2 >= 0) {\n                optcount += optcount2;", "            if (optcount2 >= 0) {\n                optcount += optcount2 - 1;", ['C20']),
]


def sh(cmd, **kw):
    return subprocess.run(cmd, stdout=subprocess.PIPE, stderr=subprocess.STDOUT, text=True, **kw)


def main():
    sel = [a for a in sys.argv[1:] if not a.startswith('--')]
    with_tests = '--with-tests' in sys.argv
    rows = []
    for name, f, old, new, props in M:
        if sel and not any(x in name for x in sel):
            continue
        if os.path.exists(W):
            sh(['git', '-C', REPO, 'worktree', 'remove', '--force', W]); shutil.rmtree(W, ignore_errors=True)
        os.makedirs(os.path.dirname(W), exist_ok=True)
        sh(['git', '-C', REPO, 'worktree', 'add', '--detach', W, 'HEAD'])
        p = os.path.join(W, f); s = open(p).read()
        if old not in s:
            rows.append((name, 'PATTERN-NOT-FOUND', '')); print(name, 'PATTERN-NOT-FOUND'); continue
        open(p, 'w').write(s.replace(old, new, 1))
        tests = ''
        if with_tests:
            r = sh('cmake -G Ninja -B %s/_b -S %s >/dev/null && cmake --build %s/_b >/dev/null 2>&1 && ctest --test-dir %s/_b -j8 --timeout 900 2>&1 | grep "tests passed"' % (W, W, W, W), shell=True)
            tests = 'tests:' + ('pass' if '100% tests passed' in r.stdout else 'FAIL')
        env = dict(os.environ, QLIBC_REPO=W, VF_EVIDENCE_DIR='/tmp/wt-eval/ev-selftest')
        os.makedirs(env['VF_EVIDENCE_DIR'], exist_ok=True)
        res = []
        for pr in props:
            t = time.time()
            r = sh([sys.executable, os.path.join(VERIF, 'vf.py'), 'check', pr, '--tier', 'quick'], env=env, cwd=VERIF)
            keys = [l.strip()[:110] for l in r.stdout.split('\n') if l.startswith('  key=')]
            res.append('%s:%s(%.0fs)%s' % (pr, {0: 'MISSED', 1: 'caught', 2: 'inconclusive'}.get(r.returncode, r.returncode), time.time() - t, (' ' + keys[0]) if keys else ''))
        rows.append((name, tests, ' | '.join(res)))
        print(name, tests, ' | '.join(res), flush=True)
    sh(['git', '-C', REPO, 'worktree', 'remove', '--force', W]); shutil.rmtree(W, ignore_errors=True)
    shutil.rmtree('/tmp/wt-eval/ev-selftest', ignore_errors=True)
    missed = [r for r in rows if 'MISSED' in r[2] or 'PATTERN' in r[1]]
    print('\n%d mutants, %d with a miss or unusable' % (len(rows), len(missed)))
    for r in missed:
        print('  ', r)


if __name__ == '__main__':
    main()
