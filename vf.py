#!/usr/bin/env python3
"""vf.py - driver of the qLibc runtime-monitoring checks.

  vf.py check <Cxx> [--tier quick|thorough] [--seed N]
  vf.py replay <replay.json>
  vf.py list

build qLibc from $QLIBC_REPO (default /repo) with -DQLIBC_VERIF under the
build configuration(s) the check needs -> link the harness with the --wrap
interposers -> run its shards in parallel -> collect result files, distinct-hash
sets and sanitizer logs -> match against known_findings.txt -> write
evidence/<id>.json -> exit 0 (held on what was observed) / 1 (VIOLATION) /
2 (inconclusive: harness failure, wall-clock watchdog, monitors saw nothing).
"""
import sys, os, re, json, time, glob, shutil, struct, subprocess, fnmatch, hashlib
from concurrent.futures import ThreadPoolExecutor

VERIF = os.path.dirname(os.path.abspath(__file__))
REPO = os.environ.get('QLIBC_REPO', '/repo')
NCPU = int(os.environ.get('VF_JOBS', os.cpu_count() or 8))
GUARD = 'QLIBC_VERIF'

sys.path.insert(0, VERIF)

# --------------------------------------------------------------------------- builds
LIB_DIRS = ['src/containers', 'src/utilities', 'src/internal', 'src/internal/md5']
LIB_EXTRA = ['src/extensions/qconfig.c', 'src/extensions/qaconf.c', 'src/extensions/qlog.c']
INCS = ['include/qlibc', 'include', 'src/internal']

SAN_COMMON = ['-fno-omit-frame-pointer']
CONFIGS = {
    'plain': dict(cc='gcc', cflags=['-std=gnu99', '-O1', '-g', '-fno-builtin'], ld=[]),
    'asan': dict(cc='gcc', cflags=['-std=gnu99', '-O1', '-g', '-fno-builtin',
                                   '-fsanitize=address,undefined',
                                   '-fno-sanitize=nonnull-attribute,returns-nonnull-attribute',
                                   '-fsanitize-recover=all'] + SAN_COMMON,
                 ld=['-fsanitize=address,undefined']),
    'tsan': dict(cc='gcc', cflags=['-std=gnu99', '-O1', '-g', '-fsanitize=thread'] + SAN_COMMON,
                 ld=['-fsanitize=thread']),
    'vg': dict(cc='gcc', cflags=['-std=gnu99', '-O0', '-g', '-fno-builtin'], ld=[]),
    # the library as a release build (what CMAKE_BUILD_TYPE=Release produces: -O3 -DNDEBUG, builtins on); the harness itself stays at -O1
    'rel': dict(cc='gcc', cflags=['-std=gnu99', '-O3', '-g', '-DNDEBUG'], hflags=['-O1', '-g', '-fno-builtin'], ld=[]),
    'fuzz': dict(cc='clang', cflags=['-std=gnu99', '-O1', '-g', '-fsanitize=fuzzer-no-link,address,undefined',
                                     '-fno-sanitize=nonnull-attribute,returns-nonnull-attribute',
                                     '-fno-sanitize-recover=all'] + SAN_COMMON,
                 ld=['-fsanitize=fuzzer,address,undefined']),
}
WRAPS = {
    'alloc': ['malloc', 'calloc', 'realloc', 'strdup', 'free'],
    'lock': ['pthread_mutex_trylock', 'pthread_mutex_unlock', 'usleep'],
    'popen': ['popen'],
}


class Inconclusive(Exception):
    pass


def run(cmd, **kw):
    return subprocess.run(cmd, stdout=subprocess.PIPE, stderr=subprocess.STDOUT, text=True, **kw)


def lib_sources():
    srcs = []
    for d in LIB_DIRS:
        srcs += sorted(glob.glob(os.path.join(REPO, d, '*.c')))
    srcs += [os.path.join(REPO, f) for f in LIB_EXTRA]
    return [s for s in srcs if os.path.exists(s)]


def build_lib(bdir, config, extra_defs=()):
    """compile every qLibc source of the working tree under `config`; returns object list"""
    cfg = CONFIGS[config]
    odir = os.path.join(bdir, 'lib-' + config)
    os.makedirs(odir, exist_ok=True)
    incs = sum((['-I', os.path.join(REPO, i)] for i in INCS), [])
    jobs = []
    for s in lib_sources():
        o = os.path.join(odir, os.path.relpath(s, REPO).replace('/', '_')[:-2] + '.o')
        jobs.append((s, o, [cfg['cc']] + cfg['cflags'] + ['-D' + GUARD, '-w'] + list(extra_defs) + incs + ['-c', s, '-o', o]))

    def cc(j):
        r = run(j[2])
        return (j, r)
    with ThreadPoolExecutor(NCPU) as ex:
        for j, r in ex.map(cc, jobs):
            if r.returncode != 0:
                raise Inconclusive('build failed (%s): %s\n%s' % (config, j[0], r.stdout[-3000:]))
    return [j[1] for j in jobs]


def build_harness(bdir, config, harness, lib_objs, wraps, extra_srcs=(), extra_cflags=(), libs=()):
    cfg = CONFIGS[config]
    hdir = os.path.join(VERIF, 'harness')
    exe = os.path.join(bdir, '%s-%s' % (harness, config))
    incs = sum((['-I', os.path.join(REPO, i)] for i in INCS), []) + ['-I', hdir, '-I', os.path.join(VERIF, 'refs')]
    srcs = [os.path.join(hdir, harness + '.c'), os.path.join(hdir, 'vfc.c'), os.path.join(hdir, 'wrap.c')]
    srcs += [os.path.join(VERIF, s) for s in extra_srcs]
    wl = []
    for w in wraps:
        for sym in WRAPS[w]:
            wl.append('-Wl,--wrap=' + sym)
        if w != 'alloc':
            srcs.append(os.path.join(hdir, 'wrap_%s.c' % w))
    if 'alloc' not in wraps:
        raise Inconclusive('alloc wrap is mandatory (vfc uses __real_malloc)')
    hflags = [f for f in cfg.get('hflags', cfg['cflags']) if f != '-std=gnu99'] + ['-std=gnu11', '-D' + GUARD, '-Wall', '-Wno-unused-function',
                                                                  '-Wno-unused-variable', '-Wno-unused-but-set-variable']
    objs = []

    def cc(s):
        o = os.path.join(bdir, '%s-%s-%s.o' % (harness, config, os.path.basename(s)[:-2]))
        return s, o, run([cfg['cc']] + hflags + list(extra_cflags) + incs + ['-c', s, '-o', o])
    with ThreadPoolExecutor(NCPU) as ex:
        for s, o, r in ex.map(cc, srcs):
            if r.returncode != 0:
                raise Inconclusive('harness build failed: %s\n%s' % (s, r.stdout[-4000:]))
            objs.append(o)
    r = run([cfg['cc']] + cfg['ld'] + ['-o', exe] + objs + lib_objs + wl + ['-lpthread', '-lm'] + list(libs))
    if r.returncode != 0:
        raise Inconclusive('link failed: %s\n%s' % (harness, r.stdout[-4000:]))
    return exe


# --------------------------------------------------------------------------- sanitizer logs
REPO_SRC_RE = None


def parse_san_logs(paths):
    """returns list of (key, excerpt) for every report block in the given sanitizer logs"""
    out = []
    for p in paths:
        try:
            txt = open(p, errors='replace').read()
        except OSError:
            continue
        lines = txt.split('\n')
        i = 0
        while i < len(lines):
            ln = lines[i]
            m = re.search(r'ERROR: (AddressSanitizer|LeakSanitizer|ThreadSanitizer): ([\w-]+)', ln) or \
                re.search(r'WARNING: (ThreadSanitizer): ([\w -]+?) \(pid', ln)
            m2 = re.search(r'([\w./-]+):(\d+):(\d+): runtime error: (.*)', ln)
            if m:
                tool, cls = m.group(1), m.group(2).strip().replace(' ', '-')
                if cls == 'attempting':
                    cls = 'double-free' if 'double-free' in ln else 'bad-free'
                if cls == 'detected' and 'memory leaks' in ln:
                    cls = 'leak'
                blk = [ln]
                j = i + 1
                while j < len(lines) and not lines[j].startswith('=====') and 'SUMMARY:' not in lines[j] and j - i < 400:
                    blk.append(lines[j]); j += 1
                if j < len(lines):
                    blk.append(lines[j])
                fn = innermost_lib_frame(blk)
                kind = {'AddressSanitizer': 'asan', 'LeakSanitizer': 'lsan', 'ThreadSanitizer': 'tsan'}[tool]
                if tool == 'ThreadSanitizer':
                    fns = sorted(set(lib_frames_per_stack(blk)))
                    fn = '+'.join(fns) if fns else fn
                out.append(('%s:%s:%s' % (kind, cls, fn), '\n'.join(blk[:60])))
                i = j + 1
                continue
            if m2:
                msg = m2.group(4)
                cls = ubsan_class(msg)
                blk = [ln]
                j = i + 1
                skipped = 0
                while j < len(lines) and (re.match(r'\s+#\d+ ', lines[j]) or (skipped < 5 and len(blk) == 1 and 'runtime error' not in lines[j])):
                    if re.match(r'\s+#\d+ ', lines[j]):
                        blk.append(lines[j])
                    else:
                        skipped += 1
                    j += 1
                fn = innermost_lib_frame(blk) or os.path.basename(m2.group(1))
                out.append(('ubsan:%s:%s' % (cls, fn), '\n'.join(blk[:30])))
                i = j
                continue
            i += 1
    return out


def parse_vg_logs(paths):
    """valgrind memcheck logs -> (key, excerpt)"""
    out = []
    for p in paths:
        try:
            lines = open(p, errors='replace').read().split('\n')
        except OSError:
            continue
        i = 0
        while i < len(lines):
            m = re.match(r'==\d+== (Conditional jump or move depends on uninitialised value|Use of uninitialised value|Invalid read|Invalid write|Invalid free|Mismatched free|Source and destination overlap|Syscall param .* uninitialised|Jump to the invalid address|Process terminating with default action of signal \d+)', lines[i])
            if m:
                blk = [lines[i]]; j = i + 1
                while j < len(lines) and re.match(r'==\d+==\s+(at|by) ', lines[j]):
                    blk.append(lines[j]); j += 1
                fn = 'unknown'
                for ln in blk[1:]:
                    mm = re.match(r'==\d+==\s+(?:at|by) 0x[0-9A-F]+: (\S+) \((\S+?):\d+\)', ln)
                    if mm and (mm.group(2).startswith('q') or mm.group(2) in ('md5c.c',)) and not mm.group(1).startswith('vf_'):
                        fn = mm.group(1); break
                cls = re.sub(r'[^a-z]+', '-', m.group(1).lower())[:40]
                if fn != 'unknown' or 'Process terminating' in m.group(1):
                    out.append(('vg:%s:%s' % (cls, fn), '\n'.join(blk[:30])))
                i = j; continue
            i += 1
    return out


def ubsan_class(msg):
    for pat, c in [('misaligned', 'misaligned'), ('null pointer', 'null'), ('signed integer overflow', 'signed-overflow'),
                   ('shift', 'shift'), ('out of bounds', 'bounds'), ('pointer overflow', 'pointer-overflow'),
                   ('applying .* offset', 'pointer-overflow'),
                   ('load of value', 'invalid-value'), ('division by zero', 'div-zero'), ('not a valid value', 'invalid-value'),
                   ('insufficient space', 'object-size'), ('unsigned', 'unsigned-overflow')]:
        if re.search(pat, msg):
            return c
    return re.sub(r'[^a-z]+', '-', msg.lower())[:30]


def frame_fn_file(ln):
    m = re.match(r'\s+#\d+ 0x[0-9a-f]+ in (\S+) (\S+?)(:\d+)*$', ln.rstrip())
    if m:
        return m.group(1), m.group(2)
    m = re.match(r'\s+#\d+ (\S+) (\S+?)(:\d+)* \(', ln)   # tsan format:  #0 fn file:line (module+off)
    if m:
        return m.group(1), m.group(2)
    return None, None


def is_lib_file(f):
    f = os.path.realpath(f) if f and f.startswith('/') else (f or '')
    return '/src/containers/' in f or '/src/utilities/' in f or '/src/extensions/' in f or '/src/internal/' in f


def innermost_lib_frame(blk):
    for ln in blk:
        fn, f = frame_fn_file(ln)
        if fn and is_lib_file(f):
            return fn
    for ln in blk:   # fall back to the innermost frame with a name
        fn, f = frame_fn_file(ln)
        if fn and not fn.startswith('__interceptor') and not fn.startswith('__wrap') and not fn.startswith('__asan'):
            return fn
    return 'unknown'


def lib_frames_per_stack(blk):
    """for TSan: innermost library function of each stack in the report"""
    res, cur_done = [], True
    for ln in blk:
        if re.match(r'\s+#0 ', ln):
            cur_done = False
        if not cur_done:
            fn, f = frame_fn_file(ln)
            if fn and is_lib_file(f):
                res.append(fn); cur_done = True
    return res


# --------------------------------------------------------------------------- known findings
def load_known():
    findings, fixed = [], []
    p = os.path.join(VERIF, 'known_findings.txt')
    if os.path.exists(p):
        for ln in open(p):
            ln = ln.strip()
            m = re.match(r'finding:\s+property=(\S+)\s+key=(\S+)\s*(.*)', ln)
            if m:
                findings.append((m.group(1), m.group(2), m.group(3)))
            elif ln.startswith('fixed:'):
                fixed.append(ln)
    return findings, fixed


# --------------------------------------------------------------------------- running
class Job:
    def __init__(self, harness, config='plain', wraps=('alloc',), shards=None, args=(), env=None, tag=None,
                 extra_srcs=(), timeout=None, runner=None, extra_cflags=(), libs=(), lib_defs=()):
        self.harness, self.config, self.wraps = harness, config, tuple(wraps)
        self.shards = shards if shards is not None else NCPU
        self.args, self.env, self.tag = list(args), dict(env or {}), tag or ('%s-%s' % (harness, config))
        self.extra_srcs, self.timeout, self.runner = tuple(extra_srcs), timeout, runner
        self.extra_cflags, self.libs, self.lib_defs = tuple(extra_cflags), tuple(libs), tuple(lib_defs)


class Result:
    def __init__(self):
        self.counters, self.maxes, self.samples = {}, {}, []
        self.viols = []          # (prop, key, replay, msg)
        self.dist = {}           # set name -> set of ints
        self.names = {}          # set name -> set of strings
        self.dist_files = {}     # set name -> files of uint64 hashes (unioned lazily)
        self.inconclusive = []   # strings
        self.san = []            # (key, excerpt, logpath)
        self.procs = 0

    def count(self, k, d=0):
        return self.counters.get(k, d)


def san_env(config, out):
    env = {}
    logp = out + '.san'
    if config in ('asan', 'fuzz'):
        env['ASAN_OPTIONS'] = 'halt_on_error=0:detect_leaks=1:log_path=%s:abort_on_error=0:allocator_may_return_null=1:handle_segv=0:handle_sigbus=0:handle_sigfpe=0:handle_sigill=0:handle_abort=0:detect_stack_use_after_return=0:quarantine_size_mb=16:malloc_context_size=12' % logp
        env['UBSAN_OPTIONS'] = 'print_stacktrace=1:halt_on_error=0:log_path=%s' % logp
        env['LSAN_OPTIONS'] = 'log_path=%s:exitcode=0' % logp
        env['VF_SANLOG'] = logp
    elif config == 'tsan':
        env['TSAN_OPTIONS'] = 'halt_on_error=0:log_path=%s:exitcode=0:second_deadlock_stack=1:history_size=4:handle_segv=0:handle_sigbus=0:handle_abort=0' % logp
        env['VF_SANLOG'] = logp
    return env


def run_shard(exe, job, prop, tier, seed, shard, odir, rdir):
    out = os.path.join(odir, '%s.%d' % (job.tag, shard))
    bdir_ = os.path.dirname(odir)
    base = [exe, '--prop', prop, '--tier', tier, '--seed', str(seed), '--shard', str(shard), '--nshards', str(job.shards),
            '--out', out, '--replay-dir', rdir] + [a.replace('{bdir}', bdir_) for a in job.args]
    env = dict(os.environ)
    env.update(san_env(job.config, out))
    env.update(job.env)
    if 'ASAN_OPTIONS_EXTRA' in job.env and 'ASAN_OPTIONS' in env:
        env['ASAN_OPTIONS'] = env['ASAN_OPTIONS'].replace('detect_leaks=1', job.env['ASAN_OPTIONS_EXTRA'])
    timeout = job.timeout or (900 if tier == 'quick' else 7200)
    start_case, restarts, notes = 0, 0, []
    t_shard = time.time()
    while True:
        cmd = base + (['--start-case', str(start_case)] if start_case else [])
        if job.runner:
            cmd = [a.replace('{out}', out) for a in job.runner] + cmd
        try:
            with open(out + '.stdout', 'ab') as so:
                p = subprocess.run(cmd, stdout=so, stderr=subprocess.STDOUT, env=env, timeout=timeout, cwd=odir)
            rc = p.returncode
        except subprocess.TimeoutExpired:
            notes.append('wall-clock watchdog (%ds) fired for %s shard %d' % (timeout, job.tag, shard))
            break
        res = open(out + '.res', errors='replace').read() if os.path.exists(out + '.res') else ''
        m = re.findall(r'^(?:HANG|CRASH)\t(\d+)$', res, re.M)
        if rc in (41, 42) and m and restarts < (25 if tier == 'quick' else 4000):   # 100 hung or crashed cases per shard are evidence enough; the shard then ends without DONE (reported)
            start_case = int(m[-1]) + 1
            restarts += 1
            continue
        if 'DONE\t' not in res.split('\n')[-2:][0] if res else True:
            if not re.search(r'^DONE\t', res, re.M):
                notes.append('%s shard %d ended abnormally (rc=%s) without DONE; tail: %s' % (
                    job.tag, shard, rc, tail(out + '.stdout')))
        break
    if os.environ.get('VF_TIMING'):
        print('TIMING %-28s shard %2d  %.1fs  restarts=%d' % (job.tag, shard, time.time() - t_shard, restarts), flush=True)
    return out, notes


def tail(p, n=600):
    try:
        return open(p, errors='replace').read()[-n:].replace('\n', ' | ')
    except OSError:
        return ''


def collect(outs, res):
    for out in outs:
        res.procs += 1
        p = out + '.res'
        if os.path.exists(p):
            for ln in open(p, errors='replace'):
                f = ln.rstrip('\n').split('\t')
                if f[0] == 'C' and len(f) == 3:
                    res.counters[f[1]] = res.counters.get(f[1], 0) + int(f[2])
                elif f[0] == 'M' and len(f) == 3:
                    res.maxes[f[1]] = max(res.maxes.get(f[1], 0), int(f[2]))
                elif f[0] == 'S':
                    res.samples.append('\t'.join(f[1:]))
                elif f[0] == 'N' and len(f) == 3:
                    res.names.setdefault(f[1], set()).add(f[2])
                elif f[0] == 'V' and len(f) >= 5:
                    res.viols.append((f[1], f[2], f[3], '\t'.join(f[4:])))
        for dp in glob.glob(out + '.dist.*'):
            name = dp.rsplit('.dist.', 1)[1]
            res.dist_files.setdefault(name, []).append(dp)
        logs = glob.glob(out + '.san.*') + ([out + '.stdout'] if os.path.exists(out + '.stdout') else [])
        for key, exc in parse_san_logs(logs):
            res.san.append((key, exc, logs[0] if logs else ''))
        vlogs = glob.glob(out + '.vg.*')
        for key, exc in parse_vg_logs(vlogs):
            res.san.append((key, exc, vlogs[0]))


class SizedSet:
    """stands in for a huge set: only its size is known (counted by tools/distcount.c)"""
    def __init__(self, n):
        self.n = n

    def __len__(self):
        return self.n

    def __iter__(self):
        return iter(())


def union_dist(res, bdir):
    """union the per-shard hash files; small sets in Python, large ones with a compiled sort/unique helper"""
    for name, files in res.dist_files.items():
        total = sum(os.path.getsize(f) for f in files) // 8
        if total <= 3000000:
            s = set()
            for f in files:
                data = open(f, 'rb').read()
                s.update(struct.unpack('<%dQ' % (len(data) // 8), data[:len(data) // 8 * 8]))
            res.dist[name] = s
        else:
            exe = os.path.join(bdir, 'distcount')
            if not os.path.exists(exe):
                r = run(['gcc', '-O2', '-o', exe, os.path.join(VERIF, 'tools', 'distcount.c')])
                if r.returncode != 0:
                    raise Inconclusive('distcount build failed: ' + r.stdout[-500:])
            r = run([exe] + files)
            res.dist[name] = SizedSet(int(r.stdout.strip() or 0))
    res.dist_files = {}


def execute(prop, tier, seed, jobs, bdir, rdir):
    """build + run all jobs; returns Result"""
    res = Result()
    libs = {}
    odir = os.path.join(bdir, 'out')
    os.makedirs(odir, exist_ok=True)
    exes = {}
    for job in jobs:
        lk = (job.config, job.lib_defs)
        if lk not in libs:
            libs[lk] = build_lib(bdir if not job.lib_defs else os.path.join(bdir, 'd' + hashlib.md5(repr(job.lib_defs).encode()).hexdigest()[:6]),
                                 job.config, job.lib_defs)
        k = (job.harness, job.config, job.wraps, job.extra_srcs, job.extra_cflags)
        if k not in exes:
            exes[k] = build_harness(bdir, job.config, job.harness, libs[lk], job.wraps, job.extra_srcs, job.extra_cflags, job.libs)
    tasks = []
    for job in jobs:
        k = (job.harness, job.config, job.wraps, job.extra_srcs, job.extra_cflags)
        for sh in range(job.shards):
            tasks.append((exes[k], job, sh))
    outs = []
    with ThreadPoolExecutor(NCPU) as ex:
        futs = [ex.submit(run_shard, exe, job, prop, tier, seed, sh, odir, rdir) for exe, job, sh in tasks]
        for f in futs:
            out, notes = f.result()
            outs.append(out)
            res.inconclusive += notes
    collect(outs, res)
    union_dist(res, bdir)
    return res


# --------------------------------------------------------------------------- check driver
def do_check(prop, tier, seed):
    from checks import CHECKS
    if prop not in CHECKS:
        print('unknown property', prop); return 2
    spec = CHECKS[prop]
    t0 = time.time()
    bdir = os.path.join(VERIF, '.build', '%s-%d' % (prop, os.getpid()))
    rdir = os.path.join(VERIF, 'replays')
    os.makedirs(bdir, exist_ok=True); os.makedirs(rdir, exist_ok=True)
    evpath = os.path.join(os.environ.get('VF_EVIDENCE_DIR', os.path.join(VERIF, 'evidence')), prop + '.json')
    rc = 2
    try:
        if 'pre' in spec:
            spec['pre'](tier, seed, bdir)
        jobs = spec['jobs'](tier, seed)
        res = execute(prop, tier, seed, jobs, bdir, rdir)
        if 'post' in spec:
            spec['post'](res, tier, seed, bdir, rdir)
        rc = verdict(prop, spec, res, tier, seed, t0, evpath, rdir)
    except Inconclusive as e:
        print('INCONCLUSIVE property=%s: %s' % (prop, e))
        rc = 2
    finally:
        if not os.environ.get('VF_KEEP'):
            shutil.rmtree(bdir, ignore_errors=True)
    return rc


def verdict(prop, spec, res, tier, seed, t0, evpath, rdir):
    findings, _fixed = load_known()
    # gather violations: harness-reported + sanitizer-parsed
    vio = {}   # key -> (replay, msg, n)
    san_classes = spec.get('san_classes')          # regex of sanitizer keys this property covers (None = all)
    san_ignore = spec.get('san_ignore')            # regex of sanitizer keys outside the statement
    for (p, key, replay, msg) in res.viols:
        if p != prop:
            continue
        if key == 'san':
            continue   # refined from the sanitizer logs below; kept as replay pointer
        if key.startswith('stall:'):
            res.inconclusive.append('case stalled (wall-clock watchdog inside the harness): %s %s' % (replay, msg[:120]))
            continue
        k = '%s:%s' % (prop, key)
        if k in vio:
            old = vio[k]
            vio[k] = (old[0] if old[0] != '-' else replay, old[1] if old[0] != '-' else msg, old[2] + 1)
        else:
            vio[k] = (replay, msg, 1)
    san_replays = [r for (p, key, r, m) in res.viols if key == 'san']
    ignored_san = {}
    for (key, exc, logp) in res.san:
        if (san_classes and not re.search(san_classes, key)) or (san_ignore and re.search(san_ignore, key)):
            ignored_san[key] = ignored_san.get(key, 0) + 1
            continue
        k = '%s:%s' % (prop, key)
        if k in vio:
            vio[k] = (vio[k][0], vio[k][1], vio[k][2] + 1)
        else:
            # keep a copy of the report next to the replays
            rp = os.path.join(rdir, '%s-san-%s.txt' % (prop, re.sub(r'[^\w.+-]', '_', key)[:80]))
            with open(rp, 'w') as f:
                f.write(exc + '\n\ncase replays of this run:\n' + '\n'.join(san_replays[:10]) + '\n')
            vio[k] = (rp, exc.split('\n')[0][:300], 1)
    if not res.san and san_replays and spec.get('san_strict', True):
        # a case-level sanitizer hit without a parsable report block
        vio['%s:san:unparsed' % prop] = (san_replays[0], 'sanitizer report could not be parsed', len(san_replays))

    known_hits, new = [], []
    for k, (replay, msg, n) in sorted(vio.items()):
        hit = None
        for (fp, fkey, ftext) in findings:
            if fp == prop and fnmatch.fnmatchcase(k, '%s:%s' % (prop, fkey)):
                hit = (fkey, ftext); break
        if hit:
            known_hits.append((k, hit, n, replay))
        else:
            new.append((k, replay, msg, n))

    # evidence
    ev_counts = spec.get('evidence', default_evidence)(res, spec, tier)
    cov = ev_counts
    cov.setdefault('samples', res.samples[:8] or ['(no sample recorded)'])
    cov['counters'] = dict(sorted(res.counters.items()))
    if res.maxes:
        cov['maxima'] = dict(sorted(res.maxes.items()))
    cov['distinct_sets'] = {k: len(v) for k, v in sorted(res.dist.items())}
    cov['processes'] = res.procs
    cov['sanitizer_reports'] = {'counted': sorted(set(k for k in vio if ':asan:' in k or ':ubsan:' in k or ':tsan:' in k or ':lsan:' in k or ':vg:' in k)),
                                'outside_this_property': ignored_san}
    cov['known_findings_observed'] = [k for (k, _, _, _) in known_hits]
    incon = list(res.inconclusive)
    for need in spec.get('require', []):
        if res.count(need) <= 0 and res.maxes.get(need, 0) <= 0:
            incon.append('monitor counter %s observed nothing' % need)
    if cov.get('evaluations', 0) < 1:
        incon.append('no evaluations recorded')
    ev = dict(property_id=prop, tier=tier, seed=seed, level=spec['level'], coverage=cov,
              assumptions=spec.get('assumptions', []), wall_s=round(time.time() - t0, 2), violations=len(new),
              verdict=('violated' if new else ('inconclusive' if incon else 'held_on_observed')),
              inconclusive_reasons=incon)
    os.makedirs(os.path.dirname(evpath), exist_ok=True)
    tmp = evpath + '.tmp'
    with open(tmp, 'w') as f:
        json.dump(ev, f, indent=1, sort_keys=False)
    os.replace(tmp, evpath)

    grouped = {}
    for (k, (fkey, ftext), n, replay) in known_hits:
        g = grouped.setdefault(fkey, [ftext, 0, set()])
        g[1] += n; g[2].add(k)
    for fkey, (ftext, n, ks) in sorted(grouped.items()):
        print('KNOWN-FINDING: property=%s key=%s (%d occurrence(s), %d violation key(s)) %s' % (prop, fkey, n, len(ks), ftext))
    for (k, replay, msg, n) in new:
        print('VIOLATION property=%s replay=%s' % (prop, replay))
        print('  key=%s occurrences=%d %s' % (k, n, msg[:400]))
    print('%s %s seed=%d: evaluations=%d distinct=%d violations=%d known=%d wall=%.1fs' % (
        prop, tier, seed, cov.get('evaluations', 0), cov.get('distinct_nontrivial', 0), len(new), len(known_hits), time.time() - t0))
    if new:
        return 1
    if incon:
        for s in incon:
            print('INCONCLUSIVE property=%s: %s' % (prop, s))
        return 2
    return 0


def default_evidence(res, spec, tier):
    d = dict(evaluations=res.count('evaluations'),
             distinct_nontrivial=len(res.dist.get('distinct', ())),
             rule=spec.get('rule', ''))
    if 'exhaustive' in spec:
        ex = spec['exhaustive']
        d['exhaustive'] = bool(ex(res, tier)) if callable(ex) else bool(ex)
    return d


def do_replay(path):
    from checks import CHECKS
    rec = json.load(open(path))
    prop, harness = rec['prop'], rec['harness']
    spec = CHECKS[prop]
    argv = rec['argv']
    tier = argv[argv.index('--tier') + 1] if '--tier' in argv else 'quick'
    jobs = [j for j in spec['jobs'](tier, rec['seed']) if j.harness == harness]
    # pick the job whose args match the recorded argv best
    def score(j):
        return sum(1 for a in j.args if a in argv)
    job = max(jobs, key=score)
    bdir = os.path.join(VERIF, '.build', 'replay-%d' % os.getpid())
    os.makedirs(bdir, exist_ok=True)
    try:
        lib = build_lib(bdir, job.config, job.lib_defs)
        exe = build_harness(bdir, job.config, harness, lib, job.wraps, job.extra_srcs, job.extra_cflags, job.libs)
        out = os.path.join(bdir, 'replay')
        args = [a for a in argv]
        for opt in ('--out', '--replay-dir', '--start-case', '--only-case'):
            while opt in args:
                i = args.index(opt); del args[i:i + 2]
        if 'pre' in spec:
            spec['pre'](tier, rec['seed'], bdir)
        for i in range(0, len(job.args) - 1):
            if '{bdir}' in job.args[i + 1] and job.args[i] in args:
                args[args.index(job.args[i]) + 1] = job.args[i + 1].replace('{bdir}', bdir)
        cmd = [exe] + args + ['--out', out, '--replay-dir', bdir, '--only-case', str(rec['case'])]
        env = dict(os.environ); env.update(san_env(job.config, out)); env.update(job.env)
        if job.runner:
            cmd = job.runner + cmd
        p = subprocess.run(cmd, env=env, cwd=bdir)
        res = open(out + '.res').read() if os.path.exists(out + '.res') else ''
        print(res)
        for lp in glob.glob(out + '.san.*'):
            print(open(lp, errors='replace').read()[:6000])
        reproduced = bool(re.search(r'^V\t', res, re.M)) or bool(glob.glob(out + '.san.*')) or p.returncode in (41, 42)
        print('REPRODUCED' if reproduced else 'NOT REPRODUCED')
        return 1 if reproduced else 0
    finally:
        shutil.rmtree(bdir, ignore_errors=True)


def main():
    a = sys.argv[1:]
    if not a:
        print(__doc__); return 2
    if a[0] == 'list':
        from checks import CHECKS
        for k in sorted(CHECKS):
            print(k, CHECKS[k]['level'], CHECKS[k].get('title', ''))
        return 0
    if a[0] == 'replay':
        return do_replay(a[1])
    if a[0] == 'check':
        prop = a[1]
        tier = os.environ.get('VERIF_TIER', 'quick')
        seed = int(os.environ.get('VERIF_SEED', '1') or 1)
        if '--tier' in a:
            tier = a[a.index('--tier') + 1]
        if '--seed' in a:
            seed = int(a[a.index('--seed') + 1])
        if tier not in ('quick', 'thorough'):
            tier = 'quick'
        return do_check(prop, tier, seed)
    print(__doc__)
    return 2


if __name__ == '__main__':
    sys.exit(main())
