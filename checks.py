"""checks.py - per-property check specifications used by vf.py"""
from vf import Job, NCPU

CHECKS = {}

TREE_ASSUME = ['the harness-side sorted-array model and orderings (h_tree.c) are correct',
               'x86-64 / glibc / gcc 12; library built -O1 from the working tree with -DQLIBC_VERIF',
               'shapes are de-duplicated by a 64-bit hash of (key bytes, colour) in pre-order']


REFS_HASH = ('refs/ref_hash.c',)


SCALED_ARGS = ('--cases', '--random', '--queries', '--mutations', '--ini', '--apache')


def rel_twin(job, frac=0.5):
    """the same harness against the library compiled as a release build (-O3 -DNDEBUG, builtins on; vf.py config 'rel'), at a fraction of the volume:
    undefined or implementation-defined behaviour that is harmless at -O0/-O1 but is exploited by the optimiser shows as a wrong result of the same oracle"""
    a = list(job.args)
    for i in range(len(a) - 1):
        if a[i] in SCALED_ARGS and a[i + 1].isdigit():
            a[i + 1] = str(max(1, int(int(a[i + 1]) * frac)))
    return Job(job.harness, 'rel', wraps=job.wraps, shards=job.shards, args=a, env=job.env, extra_srcs=job.extra_srcs, timeout=job.timeout,
               extra_cflags=job.extra_cflags, libs=job.libs, lib_defs=job.lib_defs)


def scale_job(tier):
    """the containers at scale and after long histories (h_scale.c): hundreds of thousands of elements, values up to 1 MiB, drain and reuse"""
    return Job('h_scale', 'plain', extra_srcs=REFS_HASH, args=(['--n', '1200007', '--huge', '1'] if tier == 'thorough' else ['--n', '300007']))


def tree_jobs(prop, q_args, t_args):
    def jobs(tier, seed):
        j = Job('h_tree', 'plain', args=(t_args if tier == 'thorough' else q_args))
        return [j, scale_job(tier), rel_twin(j)]
    return jobs


CHECKS['C01'] = dict(
    title='tree table exact sorted map', level='exploration',
    jobs=tree_jobs('C01', ['--universe', '10', '--cases', '600'], ['--universe', '13', '--cases', '24000']),
    rule='evaluation = one API call compared with the sorted-map model, followed by a full content comparison '
         '(every universe key, size, min, max). Phase A enumerates breadth-first every LLRB shape reachable by put/remove '
         'over the universe, per (ordering, key class) configuration, applying every put/remove to every shape; phase B runs '
         'seeded random histories over universes of 4/16/64/1024 keys. distinct = distinct (configuration, tree shape) pairs '
         'reached, shape = pre-order of (key, colour).',
    exhaustive=lambda res, tier: False,
    require=['content_compares', 'put_replace', 'remove_absent', 'remove_inner_with_successor', 'remove_leaf_or_bottom', 'exhaustive_shapes', 'cases_where_successful_allocations_leave_errno_enomem', 'gets_compared', 'long_key_tables'],
    assumptions=TREE_ASSUME)

CHECKS['C02'] = dict(
    title='tree table valid LLRB, logarithmic lookups', level='exploration',
    jobs=tree_jobs('C02', ['--universe', '10', '--cases', '600', '--big', '16', '--bign', '5000'], ['--universe', '13', '--cases', '24000', '--big', '64', '--bign', '20000']),
    rule='evaluation = one put/remove/get (including failed removes, replacing puts, and puts that fail because their 1st/2nd/3rd allocation fails - from every shape) after which the independent walker '
         '(order, black root, no red-red, equal black height, no right-leaning lone red, node count) and qtreetbl_check() are evaluated; '
         'lookup cost = comparator calls of getobj, bound 2^cmp <= (n+1)^2. distinct = distinct (configuration, shape) pairs.' ' Second job (h_scale): trees of 300 007 / 70 001 / 300 procedural keys (1 200 007 thorough) built ascending, descending and permuted, values up to 1 MiB, every key read after build / removal of min and max / thinning / re-put / churn / drain / reuse; 300 binary keys of 64..128 KiB; every fifth case of h_tree runs with successful allocations leaving errno=ENOMEM.' ' Second job (h_scale): the O(n) LLRB walker (order, colours, black height, height bound, node count, qtreetbl_check) after every phase of trees with up to 300 007 keys (1 200 007 thorough) and on trees with keys of 64..128 KiB.',
    require=['structure_checks', 'lookups_cost_checked', 'exhaustive_shapes', 'remove_absent', 'put_replace', 'failed_or_fault_injected_puts_checked', 'structure_nodes_walked', 'long_key_tables'],
    assumptions=TREE_ASSUME)

CHECKS['C03'] = dict(
    title='tree traversal ascending exactly-once', level='exploration',
    jobs=tree_jobs('C03', ['--universe', '9', '--cases', '400'], ['--universe', '12', '--cases', '24000']),
    rule='evaluation = one operation of a history of put/remove/complete walks/abandoned walks/nearest searches; every complete '
         'walk from a zeroed cursor is compared element by element (key, key size, value, value size) with the model order and must end once. A directed epoch sweep places exactly k traversal starts of one kind (nearest searches, abandoned continuations, abandoned walks, completed continuations, mixed) between audited walks for k around one and two wraps of the 8-bit counter. '
         'distinct = distinct (configuration, tree shape, epoch value) triples at which an audited walk completed.' ' Second job (h_scale): complete walks (copying and not) over trees of up to 300 007 keys after build / thinning / re-put / churn / drain / reuse, and over keys of 64..128 KiB.',
    require=['complete_walks_audited', 'abandoned_walks', 'epoch_wraps', 'walks_started_after_fresh_insert', 'walks_started_after_root_change', 'epoch_sweep_histories', 'walk_elements_compared'],
    assumptions=TREE_ASSUME + ['CPU budget 2 s per getnext call decides non-termination'])

CHECKS['C04'] = dict(
    title='nearest-key search floor semantics / termination', level='exploration',
    jobs=tree_jobs('C04', ['--universe', '9', '--cases', '600'], ['--universe', '12', '--cases', '16000']),
    rule='evaluation = one operation; every find_nearest result is compared with floor(probe) on the model (min if no floor, ENOENT on empty) under a 2 s CPU budget; '
         'continuations are audited as a multiset when no walk is pending. distinct = distinct (configuration, tree shape, probe key) triples.' ' Second job (h_scale): below-minimum and above-maximum probes after every put of the build phase of 300 007-key trees (three insertion orders), 400 random probes per audit with two complete continuations, probes among keys of 64..128 KiB.',
    require=['probes', 'probe_equal', 'probe_in_gap', 'probe_below_min', 'probe_above_max', 'probes_after_root_change', 'continuations_audited', 'edge_probes'],
    assumptions=TREE_ASSUME + ['CPU budget 2 s per call decides non-termination'])


CHECKS['C05'] = dict(
    title='hash table exact map for every history and range', level='exploration',
    jobs=lambda tier, seed: [Job('h_hashtbl', 'plain', extra_srcs=REFS_HASH,
                                 args=['--cases', '48000' if tier == 'thorough' else '480']), scale_job(tier),
                             Job('h_hashtbl', 'rel', extra_srcs=REFS_HASH, args=['--cases', '24000' if tier == 'thorough' else '240'])],
    rule='evaluation = one API call (put/putstr/putstrf/putint/get/getstr/getint/remove/clear/size/getnext walk) compared with an association-array model; '
         'after every operation of small configurations (every 16th otherwise) every universe key is re-read and the chain walker re-checks slot placement '
         '(reference MurmurHash3), stored hashes, duplicates and the count. Ranges 1,2,3,7,64,default; removals chosen by chain position head/middle/tail/only; one key style consists of pairs of distinct keys with identical full 32-bit hashes (found by birthday search with the reference hash). '
         'distinct = distinct (universe, range, chain layout) states after a mutation.' ' Second job (h_scale): tables of 300 007 keys (ranges default, 100003, 1000, 7, 1), removal oldest-first of every second key, every key re-read, chain walker, complete walks; thorough: an index range of 3*2^30 slots.',
    require=['content_compares', 'structure_checks', 'walks_audited', 'remove_chain_head', 'remove_chain_middle', 'remove_chain_tail',
             'remove_only_node', 'remove_absent', 'put_replace', 'getint', 'histories_with_full_hash_collisions', 'gets_compared', 'walk_elements_compared'],
    assumptions=['association-array model and reference MurmurHash3 x86_32 (refs/ref_hash.c, validated against published vectors)',
                 'x86-64 / glibc / gcc 12; zero-length values are not generated (malloc(0) is implementation-defined)'])


HASHARR_ASSUME = ['bounded-map model with slots(v) = 1 if |v|<=32 else 1+ceil((|v|-32)/66), sizes taken from sizeof of the public slot struct',
                  'reference MurmurHash3/MD5 (refs/ref_hash.c) identify which universe key a slot holds',
                  'x86-64 / glibc / gcc 12']


def hasharr_jobs(prop):
    def jobs(tier, seed):
        q = ['--maxcap', '6', '--cases', '280', '--statecap', '200000']
        t = ['--maxcap', '12', '--cases', '3500', '--statecap', '3000000']
        a = t if tier == 'thorough' else q
        js = [Job('h_hasharr', 'plain', extra_srcs=REFS_HASH, args=a + (['--longchain', '1'] if (prop == 'C06' and tier == 'thorough') else [])), scale_job(tier)]
        js.append(Job('h_hasharr', 'rel', extra_srcs=REFS_HASH, args=(['--maxcap', '8', '--cases', '1750', '--statecap', '600000'] if tier == 'thorough' else ['--maxcap', '5', '--cases', '140', '--statecap', '100000'])))
        if prop == 'C07':
            qa = ['--maxcap', '5', '--cases', '140', '--statecap', '100000']
            ta = ['--maxcap', '8', '--cases', '1500', '--statecap', '600000']     # capacity 9 under ASan took ~1 h on two shards (the BFS of one capacity is one case)
            js.append(Job('h_hasharr', 'asan', extra_srcs=REFS_HASH, args=(ta if tier == 'thorough' else qa)))
        return js
    return jobs


CHECKS['C06'] = dict(
    title='static hash table exact bounded map, exact space accounting', level='exploration',
    jobs=hasharr_jobs('C06'),
    rule='evaluation = one operation (put/put_by_obj/putstr, remove, remove_by_idx, clear, walk) judged against the bounded-map model: result, errno, '
         'the exact fit predicate (free>=1 and slots(new)<=free+slots(old)), (num,maxslots,usedslots), get of every universe key and an audited walk, after every operation. '
         'Phase A: breadth-first over every image reachable for capacities 2..N (N = 7 quick, 12 thorough) with 5 colliding keys (two per home, long keys sharing 16 bytes) x 3 value lengths (1/2/3 slots), '
         'ops put/remove/remove_by_idx(every index), images de-duplicated by a normalised copy; phase B random histories, capacities 2..257, keys up to 65535 bytes, fill/churn-at-full/drain phases; thorough tier: one collision chain of 32768 keys in a table of 33000 slots. Regions carry 0..slot-1 bytes of slack, and a second handle attached to the same memory is checked against the model. '
         'distinct = distinct normalised images.' ' Second job (h_scale): tables of 300 007 / 70 001 / 40 000 / 1100 slots filled to refusal (values up to 2270 slots, every fifth key longer than 16 bytes), exact fit predicate on every put, every key re-read, counters, complete walk after fill / thinning / replacement / churn / clear / reuse.',
    require=['walks_audited', 'put_new_refused', 'put_replace_refused', 'put_replace_ok', 'branch_empty_home', 'branch_same_home_chain',
             'branch_relocate_collision_block', 'branch_relocate_extension_block', 'remove_by_idx_promoting_collision_key', 'walks_with_removal',
             'exhaustive_images', 'gets_compared', 'put_does_not_fit'],
    assumptions=HASHARR_ASSUME)

CHECKS['C07'] = dict(
    title='static hash table image self-contained, relocatable, well-formed', level='exploration',
    jobs=hasharr_jobs('C07'),
    rule='same executions as C06. After every operation the independent walker checks the slot graph (free/leading/collision/extension classes, collision counts, back-links, '
         'acyclic terminated value chains, each extension reached once, sizes, header counters, home index by reference MurmurHash3); after every operation of phase A and every 8th of phase B '
         'a second handle is attached to the same region and to a byte copy at a different 4-byte-aligned address and must observe identical size triple, values and walk; histories switch over to the copy. '
         'The region lies between guard zones (pattern-verified in the plain build, ASan-poisoned 64 KiB in the asan build). distinct = distinct normalised images.' ' Second job (h_scale): O(n) image walker (incl. value-chain byte totals) and a relocated attached copy after every phase of tables with up to 300 007 slots.',
    require=['images_walked', 'attach_relocate_comparisons', 'switch_overs_to_relocated_copy', 'remove_by_idx_out_of_range', 'exhaustive_images'],
    assumptions=HASHARR_ASSUME + ['relocation targets are 4-byte aligned (natural alignment of the image structs)'])


CHECKS['C08'] = dict(
    title='list table exact ordered multimap under every option combination', level='exploration',
    jobs=lambda tier, seed: [Job('h_listtbl', 'plain', extra_srcs=REFS_HASH, args=['--cases', '128000' if tier == 'thorough' else '960']), scale_job(tier),
                             Job('h_listtbl', 'rel', extra_srcs=REFS_HASH, args=['--cases', '64000' if tier == 'thorough' else '480'])],
    rule='evaluation = one operation (put/putstr/putstrf/putint, get/getstr/getint, getmulti, remove, full and name-filtered walks with both copy flags, '
         'removeobj of the first/last/only/middle entry during a walk, sort, save+load with and without encoding, clear) compared with an ordered-multimap model '
         'parameterised by the 4 options; after every operation the raw chain (public links) is compared entry by entry with the model order and the link invariants are checked. '
         'All 16 option combinations, names differing only in case. distinct = distinct (option combination, name sequence) states.' ' Second job (h_scale): tables of 300 007 entries (20 000 with INSERTTOP) under 6 option sets: walk order compared entry by entry, sampled get/getmulti, 150 multi-removals, save+load of the whole table, sort of 4000 entries; names of 257/300/4000 bytes in h_listtbl.',
    require=['order_compares', 'full_walks_audited', 'named_walks_audited', 'getmulti', 'removeobj_first', 'removeobj_last', 'removeobj_only', 'removeobj_middle',
             'sorts', 'save_load_roundtrips', 'save_load_append_roundtrips', 'remove_multiple', 'gets_compared'],
    assumptions=['ordered-multimap model (h_listtbl.c); strcmp/strcasecmp of the C library define key equality and sort order',
                 'save/load: names are identifier-like, values are strings; raw (unencoded) mode only for values without newline and without leading/trailing blanks'])


CHECKS['C09'] = dict(
    title='list, queue, stack, grow buffer exact sequences', level='exploration',
    jobs=lambda tier, seed: [Job('h_list', 'plain', args=['--cases', '64000' if tier == 'thorough' else '480']), scale_job(tier),
                             Job('h_list', 'rel', args=['--cases', '32000' if tier == 'thorough' else '240'])],
    rule='evaluation = one operation compared with an array-of-byte-strings model (result, out-size, errno class ERANGE/ENOBUFS/EINVAL/ENOENT), followed by a full comparison of the '
         'chain (public links, both directions), size() and datasize(). Exhaustive sweep: every (n<=12, index in [-n-2,n+2], op in addat/getat/popat/removeat, size limit none/n-1/n/n+1) cell on a fresh list; '
         'random histories of list (all operations incl. setsize, reverse, toarray, tostring, getnext), queue (FIFO), stack (LIFO) and grow buffer (concatenation). '
         'distinct = sweep cells + distinct (container kind, element-prefix sequence) states.' ' Second job (h_scale): lists of 300 007 / 70 001 / 65 537 elements (values up to 1 MiB): counts, byte total, walk, toarray, index-addressed get/insert/pop/remove around 65535 and across the range, reverse, drain from both ends, reuse; queue/stack/grow buffer with 300 007 elements.',
    require=['sweep_cells', 'refused_calls_verified_effect_free', 'add_refused_full', 'add_refused_range', 'access_refused_range', 'walks_audited',
             'flattenings_audited', 'reversals', 'push_refused_full', 'pop_on_empty', 'grow_adds', 'getat_compared', 'toarray_compared'],
    assumptions=['array model with the documented index conventions (insertion: negative i -> n+i+1, valid 0..n; access: negative i -> n+i, valid 0..n-1)',
                 'popstr/getstr are only applied to NUL-terminated elements, popint/getint only to 8-byte elements (anything else is a caller error)'])


CHECKS['C10'] = dict(
    title='vector exact array under every growth policy', level='exploration',
    jobs=lambda tier, seed: [Job('h_vector', 'plain', args=['--cases', '64000' if tier == 'thorough' else '320']), scale_job(tier),
                             Job('h_vector', 'rel', args=['--cases', '32000' if tier == 'thorough' else '160'])],
    rule='evaluation = one operation compared with an array-of-fixed-size-elements model (result, returned bytes, errno ERANGE/ENOENT/EINVAL), followed by a comparison of the whole '
         'element buffer, size(), element size, num<=max and data!=NULL iff max>0. Exhaustive sweep: every (n<=10, index in [-n-2,n+2], element size 1/3/8/17/64, policy exact/linear/double, '
         'initial capacity 0/1/n/n+3, op addat/getat/setat/popat/removeat) cell; random histories with resize to 0 / at or below n / above n / to a capacity that can not be allocated / to a capacity whose byte count overflows size_t (both must be refused without effect) interleaved with middle insertion and removal. '
         'distinct = sweep cells + distinct (element size, policy, length, capacity, content prefix) states.' ' Second job (h_scale): vectors of up to 1.2 M elements (sizes 1, 3, 8, 64 bytes, 3 MiB, 16 MiB) x 3 policies: raw buffer compared element by element after build, reverse, 120 index-addressed inserts/pops/removals with 64 KiB / 1 MiB / whole-array tails, toarray, shrinking/growing resizes, resize(0), reuse; thorough: 2 GiB + 4480 bytes behind the removed element.',
    require=['sweep_cells', 'refused_calls_verified_effect_free', 'automatic_growths', 'resize_to_zero', 'resize_at_or_below_n', 'resize_above_n', 'resize_unallocatable', 'resize_wrapping_byte_count',
             'walks_audited', 'flattenings_audited', 'reversals', 'elements_compared', 'getat_compared'],
    assumptions=['array model with the documented index convention (negative i -> n+i for insertion and access)'])


def c11_jobs(tier, seed):
    t = tier == 'thorough'
    return [
        Job('h_tree', 'asan', args=['--universe', '11' if t else '8', '--cases', '2000' if t else '160']),
        Job('h_hashtbl', 'asan', extra_srcs=REFS_HASH, args=['--cases', '2500' if t else '192']),
        Job('h_hasharr', 'asan', extra_srcs=REFS_HASH, args=['--maxcap', '8' if t else '5', '--cases', '1750' if t else '112', '--statecap', '600000' if t else '100000']),
        Job('h_listtbl', 'asan', extra_srcs=REFS_HASH, args=['--cases', '6400' if t else '320']),
        Job('h_list', 'asan', args=['--cases', '2500' if t else '192']),
        Job('h_vector', 'asan', args=['--cases', '2000' if t else '128']),
        Job('h_scale', 'asan', extra_srcs=REFS_HASH, args=['--n11', '120011' if t else '20011']),
    ]


def c11_evidence(res, spec, tier):
    d = default_evidence(res, spec, tier)
    d['distinct_nontrivial'] = sum(len(v) for k, v in res.dist.items() if k == 'distinct')
    return d


from vf import default_evidence
CHECKS['C11'] = dict(
    title='containers memory-safe and leak-free', level='exploration',
    jobs=c11_jobs,
    evidence=c11_evidence,
    rule='the workloads of C01-C10 (same generators: bounded-exhaustive tree shapes and hash-array images, index sweeps, random histories) executed on a gcc ASan+UBSan+LSan build in recover mode; '
         'all caller keys/values live in exactly-sized heap blocks (keys also at odd offsets inside a block), are scribbled and freed right after each call; the allocation ledger must be empty when a container is released; '
         'the static hash table region lies between 64 KiB ASan-poisoned guard zones; every 61st state check also runs the debug() printer of the container on the real contents; optional out-parameters are NULL in a quarter of the calls. evaluation = one container operation executed under the sanitizers; '
         'a functional mismatch abandons the history (decided by C01-C10). distinct = distinct container states reached (per-harness definition, summed).' ' Also h_scale under the same sanitizers: every container kind with 20 011 elements (120 011 thorough) through build / thinning / churn / drain / reuse, tree keys of 64 KiB, vectors of 3 MiB and 16 MiB elements.',
    require=['containers_released', 'containers_released_leak_free', 'histories_completed', 'exhaustive_shapes', 'exhaustive_images', 'sweep_cells'],
    assumptions=['gcc 12 libasan/libubsan/liblsan; UBSan nonnull-attribute check off (memcpy(p, NULL, 0))',
                 'ASan red zones miss non-adjacent and intra-object overflows; the static table is additionally guarded by poisoned 64 KiB zones, intra-object effects by the functional oracles',
                 'ledger attributes blocks by allocation sequence number between constructor and free()'])


C12_ACCESSORS = ['qtreetbl.getobj', 'qtreetbl.get', 'qtreetbl.getstr', 'qtreetbl.getnext(name)', 'qtreetbl.getnext(data)', 'qtreetbl.find_min', 'qtreetbl.find_max', 'qtreetbl.find_nearest(name)', 'qtreetbl.find_nearest(data)', 'qhashtbl.get', 'qhashtbl.getstr', 'qhashtbl.getnext(name)', 'qhashtbl.getnext(data)', 'qhasharr.get', 'qhasharr.getstr', 'qhasharr.getnext(name)', 'qhasharr.getnext(data)', 'qlisttbl.get', 'qlisttbl.getstr', 'qlisttbl.getmulti', 'qlisttbl.getnext(name)', 'qlisttbl.getnext(data)', 'qlist.getfirst', 'qlist.getlast', 'qlist.getat', 'qlist.popfirst', 'qlist.poplast', 'qlist.popat', 'qlist.toarray', 'qlist.tostring', 'qlist.getnext', 'qqueue.pop', 'qqueue.popstr', 'qqueue.get', 'qqueue.getstr', 'qqueue.getat', 'qqueue.popat', 'qstack.pop', 'qstack.popstr', 'qstack.get', 'qstack.getstr', 'qstack.getat', 'qstack.popat', 'qgrow.toarray', 'qgrow.tostring', 'qvector.getfirst', 'qvector.getlast', 'qvector.getat', 'qvector.popfirst', 'qvector.poplast', 'qvector.popat', 'qvector.toarray', 'qvector.getnext']

CHECKS['C12'] = dict(
    title='containers own private copies; returned copies independent', level='exploration',
    jobs=lambda tier, seed: [Job('h_own', 'asan', args=['--cases', str(9 * (2000 if tier == 'thorough' else 160))]),
                             Job('h_own', 'rel', args=['--cases', str(9 * (1000 if tier == 'thorough' else 80))])],
    rule='evaluation = one operation of a per-container random history in which every key/value passed to a put-like call lives in a fresh exactly-sized heap block that is '
         'overwritten with 0xA5 and freed right after the call, and every copying accessor (%d accessors, each required to be exercised) is called with the copy flag: the returned bytes and length are '
         'compared with the model, the pointer must be the start of its own library allocation and differ from the internal pointer, and the copy is kept in a pool that is re-verified after every later '
         'mutation and after the container is released, then freed (double free -> ASan / ledger). One in five non-removing copying reads runs with its 1st or 2nd allocation failing (single / all later): the answer may be NULL (no copy) but a non-NULL answer is held to the same independence rules. String values also go through putstrf/addstrf, with lengths 1023/1024/1025/2048/4096 (the growth steps of the formatting buffer) among them. ASan+UBSan build. distinct = distinct (accessor, value bytes) copies retained.' % len(C12_ACCESSORS),
    require=['copies:' + a for a in C12_ACCESSORS] + ['retained_copies_reverified', 'caller_buffers_scribbled_and_freed', 'containers_released', 'copying_reads_refused_under_allocation_failure'],
    assumptions=['gcc 12 ASan detects use of freed caller buffers and double frees; the ledger knows every live library allocation',
                 'values: arbitrary bytes incl. embedded/trailing NUL, C strings, all-zero elements'])


def header_methods():
    """method tables of the lockable containers, extracted from the public headers of the working tree"""
    import re, os
    from vf import REPO
    out = {}
    for name, path in [('qtreetbl', 'containers/qtreetbl.h'), ('qhashtbl', 'containers/qhashtbl.h'), ('qlisttbl', 'containers/qlisttbl.h'),
                       ('qlist', 'containers/qlist.h'), ('qqueue', 'containers/qqueue.h'), ('qstack', 'containers/qstack.h'),
                       ('qgrow', 'containers/qgrow.h'), ('qvector', 'containers/qvector.h'), ('qlog', 'extensions/qlog.h')]:
        try:
            txt = open(os.path.join(REPO, 'include/qlibc', path)).read()
        except OSError:
            continue
        m = re.search(r'struct %s_s\s*\{(.*?)\n\};' % name, txt, re.S)
        if not m:
            continue
        for meth in re.findall(r'\(\*\s*(\w+)\s*\)\s*\(', m.group(1)):
            out['%s.%s' % (name, meth)] = True
    return sorted(out)


C14_EXCLUDED = {'lock': 'is the lock operation itself', 'unlock': 'is the unlock operation itself', 'free': 'destroys the mutex',
                'set_compare': 'does not take the lock', 'freemulti': 'operates on a returned array, not on the container', 'compare': 'private comparator slot', 'cmp': 'parameter of set_compare, not a method',
                'namematch': 'private slot', 'namecmp': 'private slot'}


def c14_evidence(res, spec, tier):
    d = default_evidence(res, spec, tier)
    allm = header_methods()
    covered = res.names.get('functions_covered', set())
    want = [m for m in allm if m.split('.')[1] not in C14_EXCLUDED]
    d['functions_total_from_headers'] = len(want)
    d['functions_covered'] = len([m for m in want if m in covered])
    d['functions_uncovered'] = [m for m in want if m not in covered]
    d['functions_excluded'] = {m: C14_EXCLUDED[m.split('.')[1]] for m in allm if m.split('.')[1] in C14_EXCLUDED}
    d['function_outcome_classes'] = len(res.dist.get('function_outcome_classes', ()))
    return d


def c14_post(res, tier, seed, bdir, rdir):
    other = [v for v in res.viols if v[0] != 'C14' and (v[1].startswith('crash') or v[1].startswith('hang'))]
    if other:
        res.inconclusive.append('%d call(s) crashed or hung inside the library before the lock balance could be judged (e.g. %s); those belong to C15/C11' % (len(other), other[0][1]))


CHECKS['C14'] = dict(
    title='every operation returns with the container lock released', level='fault_enumeration',
    jobs=lambda tier, seed: [Job('h_lock', 'plain', wraps=('alloc', 'lock')), Job('h_lock', 'rel', wraps=('alloc', 'lock'))],
    evidence=c14_evidence, post=c14_post,
    rule='enumeration: every public function of every lockable container (method tables extracted from the public headers; uncovered ones are listed) x every argument/outcome variant '
         '(success, NULL/zero-size argument, present/missing key, every index in [-n-2,n+2] for n<=7 and 11 representative indexes for n=40, empty, full, NULL stream, unwritable path) '
         'x states n in {0,1,2,7,40} x entry depth {0,1} x (no fault | the k-th allocation of the call failing, k=1..K measured by a dry run, single failure and all-subsequent failure); plus, per container, a contention scenario in which a waiter exhausts its lock-wait budget (forced-unlock fallback) while the holder is inside lock()..unlock(). '
         'evaluation = one monitored call; oracle = per-thread lock depth from the trylock/unlock interposers equal before/after, plus a probe thread whose single trylock must succeed. '
         'distinct = distinct (function, outcome class, fault mode, state, entry depth) tuples.',
    exhaustive=True,
    require=['calls_lock_balanced', 'fault_positions_injected', 'probe_trylocks', 'contention_scenarios'],
    assumptions=['qLibc takes container locks only through pthread_mutex_trylock/unlock (Q_MUTEX_ENTER/LEAVE), which are interposed at link time',
                 'allocation failures are injected through the malloc/calloc/realloc/strdup interposers (errno=ENOMEM)',
                 'the outcome-variant table in h_lock.c is complete for the listed functions'])


def c15_jobs(tier, seed):
    t = tier == 'thorough'
    return [
        Job('h_tree', 'asan', args=['--universe', '8' if t else '6']),
        Job('h_oom', 'asan'),
        Job('h_oom', 'rel'),
    ]


def c15_evidence(res, spec, tier):
    d = default_evidence(res, spec, tier)
    d['operations_covered'] = sorted(res.names.get('operations_covered', ()))
    return d


CHECKS['C15'] = dict(
    title='allocation failure reported, containers unchanged and valid', level='fault_enumeration',
    jobs=c15_jobs, evidence=c15_evidence,
    rule='enumeration: for every allocating operation x every state of a corpus x failure injected at the k-th allocation made inside the call (k = 1..K measured by a dry run; single failure and all-subsequent-fail): '
         'the call must either complete correctly or report failure; after a reported failure the full content/counter comparison with the model (not updated) must hold; in every case the structural walker, a battery of normal operations, '
         'the allocation ledger at free() and ASan/UBSan must be clean, the process must not crash, and for containers built thread-safe (every other configuration) a second thread must be able to take the container lock right after the call; list tables additionally: save()/load() on real (memfd) files - a save reported as success must contain every entry - and the option flags (unique, case, sorted, inserttop, lookupforward) must be what they were. distinct = distinct (state, operation, key/variant, k, mode) tuples.' ' Every copying walk also has a variant that repeats the call with the same cursor after the reported failure and must deliver the sequence of an undisturbed walk; vector operations on three elements of 16 MiB.',
    exhaustive=True,
    require=['fault_positions_injected', 'oom_reported_failure', 'lock_probes_from_a_second_thread', 'walks_resumed_after_a_reported_allocation_failure', 'huge_element_operations'],
    assumptions=['allocation failures are injected through the malloc/calloc/realloc/strdup link-time interposers (NULL + errno=ENOMEM)',
                 'for void operations "reports failure" means errno==ENOMEM with contents unchanged'])


def c13_jobs(tier, seed):
    t = tier == 'thorough'
    W = ('alloc', 'lock')
    return [
        Job('h_conc', 'plain', wraps=W, tag='conc-controlled', args=['--mode', 'controlled', '--cases', '448' if t else '224', '--budget', '20000' if t else '3000']),
        Job('h_conc', 'plain', wraps=W, tag='conc-stress', args=['--mode', 'stress', '--cases', '4480' if t else '560']),
        Job('h_conc', 'tsan', wraps=W, tag='conc-tsan', shards=8, args=['--mode', 'stress', '--cases', '1120' if t else '168']),
        Job('h_conc', 'rel', wraps=W, tag='conc-stress-rel', shards=8, args=['--mode', 'stress', '--cases', '2240' if t else '140']),
    ]


def c13_evidence(res, spec, tier):
    d = default_evidence(res, spec, tier)
    d['exhaustive'] = False
    d['programs'] = res.count('programs')
    d['programs_enumerated_exhaustively'] = res.count('programs_enumerated_exhaustively')
    d['schedules_executed'] = res.count('schedules_executed')
    d['distinct_history_outcomes'] = len(res.dist.get('distinct_outcomes', ()))
    return d


CHECKS['C13'] = dict(
    title='thread-safe option makes concurrent use linearizable', level='exploration',
    jobs=c13_jobs, evidence=c13_evidence,
    rule='controlled mode: small client programs (2 threads x 2-3 ops, 3 threads x 2 ops, directed ones such as addlast || popfirst;popfirst, toarray || addlast;addlast, put || remove;get || get;remove, locked walk || put;remove, find_min/find_max/find_nearest || remove;put, getat;addat || popat;popat) '
         'over put/get/remove/clear/locked-walk (+ find_min, find_max, find_nearest with the copy flag on the tree; addat/getat/popat/removeat (+ setat, resize(1|6) on the vector) at positions 0-1, removefirst/removelast and reverse() on list and vector; map values go in through put/putstr/putstrf and come back through get/getstr; list tables also run load() of a two-line file (the multi table is INSERTTOP, load appends at the bottom); list, queue and stack also run with a setsize() limit of 2 (controlled) / 3 (stress), where adds at the limit must be refused; one stand-alone getnext(copy) on a fresh cursor without the caller holding the lock on list tables (named), list and vector; an eighth container kind, the list table without the unique option, with getmulti and unnamed first-entry reads, modelled as an ordered multimap) '
         'on tree, hash, unique list table, list, queue, stack, vector created thread-safe; each program is run under every schedule (depth-first over the choices at outermost lock acquire / after release / allocator calls / usleep; '
         'a worker waiting for an owned mutex is disabled) when that fits the budget, else under budget DFS + budget random schedules; every history (invocation/response stamps, results, final contents) is searched for a linearization (Wing-Gong, memoised). '
         'stress mode: 4-8 truly concurrent threads with random delays at the same points, unique values; maps checked per key (P-compositionality), sequences by conservation / no-duplicate / not-from-the-future / per-producer FIFO rules (copying gets included), ordered lookups of the tree by a stored-by-an-earlier-put rule; the same workload on a TSan build. '
         'evaluation = one schedule executed (controlled) or one operation (stress); distinct = distinct schedules (choice sequences) + distinct stress outcome vectors.' ' Long hold: per container kind one thread stays inside lock()..unlock() and walks twice while a writer fails 12000 lock polls; the writer must not complete before the unlock and both walks must agree.',
    require=['schedules_executed', 'programs_enumerated_exhaustively', 'histories_linearizable', 'stress_histories', 'stress_histories_raced_under_tsan', 'long_hold_scenarios'],
    san_ignore=None,
    assumptions=['pre-emption is injected only at outermost lock acquisition/release, library allocator calls and usleep; races between two unlocked accesses inside one segment are visible only to TSan on the stress runs',
                 'size() is not issued concurrently (unlocked read by design, not in the statement); it is read at quiescence',
                 'sequential models in h_conc.c; gcc 12 libtsan'])


CHECKS['C16'] = dict(
    title='encoders/decoders exact inverses, standard formats', level='exploration',
    jobs=lambda tier, seed: [Job('h_codec', 'plain', args=(['--exhaustive-len', '3', '--random', '60000', '--queries', '200000', '--huge', '1'] if tier == 'thorough'
                                                         else ['--exhaustive-len', '2', '--random', '20000', '--queries', '20000'])),
                             Job('h_codec', 'rel', args=['--exhaustive-len', '2', '--random', '30000' if tier == 'thorough' else '10000', '--queries', '100000' if tier == 'thorough' else '10000'])],
    rule='evaluation = one byte string taken through URL, Base64 and hex: encode, format predicate (URL: only printable ASCII outside % + & = ? # " < > literally, every literal equal to the input byte, every other byte as %hh of that byte; '
         'Base64 equal to an independent RFC 4648 encoder; hex two lowercase digits per byte), decode(encode(x)) == x with exact length, decoder leniency (upper-case hex, + for space); or one query list of 0-12 pairs over bytes 1-255 '
         '(empty names/values included, separators & or ; and =) assembled from encoded parts and parsed back, compared in chain order. Exhaustive over all byte strings of length 0..2 (quick) / 0..3 (thorough); random lengths to 4096. '
         'distinct = distinct input strings (lengths <= 2 and random) + query lists.' ' Long strings of 65535..4 MiB+1 bytes through all three codecs; thorough: 2^31+300 bytes through Base64 and 2^31+16 bytes through hex, checked block-wise.',
    exhaustive=lambda res, tier: False,
    require=['exhaustive_strings', 'random_strings', 'query_lists', 'url_strings', 'base64_strings', 'hex_strings', 'long_strings'],
    assumptions=['reference Base64 encoder in h_codec.c, self-tested against the RFC 4648 section 10 vectors at start-up'])


CHECKS['C18'] = dict(
    title='hash functions equal their published algorithms', level='exploration',
    jobs=lambda tier, seed: [Job('h_hash', 'asan', extra_srcs=REFS_HASH, args=(['--seeds', '20', '--big', '512', '--huge', '1'] if tier == 'thorough' else ['--seeds', '1', '--big', '64', '--huge', '2'])),
                             Job('h_hash', 'rel', extra_srcs=REFS_HASH, args=['--seeds', '4' if tier == 'thorough' else '1', '--big', '64', '--huge', '2'])],
    rule='evaluation = one (length, alignment, content class) cell: the bytes are placed so that they end exactly at the end of their heap block with the slack in front ASan-poisoned, hashed with qhashmd5, qhashmurmur3_32, '
         'qhashmurmur3_128, qhashfnv1_32, qhashfnv1_64 (result buffers at arbitrary alignment) and compared with independent byte-wise references; then hashed again at another address/alignment with different bytes behind the buffer (results must agree). '
         'Cell grid: every length 1..600 x 8 alignments x {random, all-zero, all-0xff, embedded NULs, high-bit}, complete in every run; plus random sizes up to 1 MiB and qhashmd5_file over files of 0/1/32767/32768/32769/102400 bytes with whole/to-end/inner/out-of-range (offset, length) requests. '
         'thorough tier only: MD5 of one buffer of 2^32+5 bytes, both Murmur3 functions on 2^31+1 bytes (lengths and block counts that do not fit 32 bits / an int), and MD5 of five ranges of a sparse 512 MiB+4133-byte file (the bit counter of the digest wraps while the file is fed in pieces). Every tier: four threads hashing different buffers and files at once, and the whole sparse file once. distinct = distinct cells + file requests.' ' File ranges also on files of 1 MiB+777 and 5 MiB+13 bytes (ranges of 256 KiB and more at unaligned offsets).',
    exhaustive=True,
    require=['cells', 'large_sizes', 'file_ranges_in_range', 'file_ranges_out_of_range'],
    assumptions=['references in refs/ref_hash.c written from RFC 1321 / MurmurHash3 / FNV-1 descriptions, validated at start-up against published vectors',
                 'gcc 12 ASan/UBSan; x86-64 little-endian output layout of the 128-bit Murmur result'])


CHECKS['C19'] = dict(
    title='string utilities exact, bounded writes', level='exploration',
    jobs=lambda tier, seed: [Job('h_string', 'asan', args=(['--maxlen', '7', '--random', '40000'] if tier == 'thorough' else ['--maxlen', '5', '--random', '4000'])),
                             Job('h_string', 'rel', args=(['--maxlen', '6', '--random', '20000'] if tier == 'thorough' else ['--maxlen', '4', '--random', '4000']))],
    rule='evaluation = one call compared with an independently written reference definition: qstrtrim/_head/_tail over exactly {space,tab,CR,LF} (the alphabet contains VT, FF, 0x80 as non-blanks); qstrreplace tn/tr/sn/sr (token mode: each listed character -> word; string mode: leftmost non-overlapping occurrences; '
         'in-place buffers sized max(|src|,|result|)+1); qstrcpy/qstrncpy = first min(n,size-1) bytes + NUL for every size 1..n+2 and nbytes 0..n between guard bytes, overlapping source; qstrtok by field list and exact reconstruction (neutral on a final empty field), '
         'qstrtokenizer = that list; qstrgets with big (exact lines) and small buffers (pieces concatenate to the CR/LF-free text); qstrunchar, qstrrev, qstrupper/lower (ASCII only), qstrdup_between, qmemdup; qstrdupf/qstrcatf = the vsnprintf result for every length 0..80 and 2^k-3..2^k+3 (k = 8..14, thorough 17: the growth steps of the internal buffer), appended into exact room + guard bytes. All strings up to length 5 (quick) / 7 (thorough) over the significant alphabets, '
         'all (src,token,word) triples over {a,b,:}, random inputs to 2 KiB; exact-size heap blocks under ASan/UBSan. distinct = distinct (function group, input) pairs.' ' qstrreplace additionally on long inputs (length products around 2^31 and 2^32, in-place results growing past 4 KiB, 50000 deletions).',
    require=['calls:qstrtrim', 'calls:qstrtrim_head', 'calls:qstrtrim_tail', 'calls:qstrunchar', 'calls:qstrrev', 'calls:qstrupper', 'calls:qstrlower', 'calls:qmemdup', 'calls:qstrcpy', 'calls:qstrncpy',
             'calls:qstrgets', 'calls:qstrtok', 'calls:qstrtokenizer', 'calls:qstrreplace', 'calls:qstrdup_between', 'replace_triples', 'random_inputs', 'format_lengths', 'replace_large_inputs'],
    assumptions=['reference definitions in h_string.c; empty search tokens for qstrreplace and nbytes > strlen(src) for qstrncpy are outside the domain', 'gcc 12 ASan/UBSan'])


def c20_counts(tier):
    return (60000, 60000) if tier == 'thorough' else (3000, 3000)


def c20_pre(tier, seed, bdir):
    import subprocess, sys, os
    from vf import VERIF, Inconclusive
    ni, na = c20_counts(tier)
    r = subprocess.run([sys.executable, os.path.join(VERIF, 'refs', 'gen_conf.py'), os.path.join(bdir, 'conf'), str(seed), str(ni), str(na)],
                       stdout=subprocess.PIPE, stderr=subprocess.STDOUT, text=True)
    if r.returncode != 0:
        raise Inconclusive('document generator failed: ' + r.stdout[-2000:])


def c20_jobs(tier, seed):
    ni, na = c20_counts(tier)
    # leak detection off: C20 is about what the parsers deliver; a leak inside a parser is outside every listed property (C11 speaks of containers)
    return [Job('h_conf', 'asan', wraps=('alloc', 'popen'), args=['--cases-dir', '{bdir}/conf', '--ini', str(ni), '--apache', str(na)], env={'LSAN_OPTIONS': 'detect_leaks=0', 'ASAN_OPTIONS_EXTRA': 'detect_leaks=0'}),
            Job('h_conf', 'rel', wraps=('alloc', 'popen'), args=['--cases-dir', '{bdir}/conf', '--ini', str(ni), '--apache', str(na)])]


CHECKS['C20'] = dict(
    title='configuration parsers deliver exactly what the file says', level='exploration',
    pre=c20_pre, jobs=c20_jobs,
    rule='documents are generated from the two grammars as abstract structures (refs/gen_conf.py); the text is rendered from the structure and the expected result is computed from the structure by reference semantics written from the documentation. '
         'INI: entries, comments, blank lines, sections incl. [] and blanks, separator inside values, ${key} (plain and section-qualified, latest definition), nested ${a${b}} resolved innermost-first, references that do not resolve (kept as written), ${} and ${%}, ${%ENV} set/unset, redefinitions, CRLF, parse_str and parse_file with @INCLUDE side files; '
         'oracle = the ordered (name, value) chain. Apache style: random option tables (take 0-7/TAKEALL, per-argument and default types, section ids, scopes ALL/ROOT/user, NULL callbacks + default handler), nesting depth <= 6, bare/single/double quoting with escapes, '
         'tab/space layout incl. blanks before the closing bracket of a tag, comments, all boolean spellings in random case, int/float forms, CASEINSENSITIVE / IGNOREUNKNOWN; every third document carries one fault (wrong count, wrong type at any position incl. beyond the fifth, wrong scope, unknown directive, unclosed or mismatched section); '
         'oracle = callback stream (otype, section, sections, level, argv after unquoting and bool normalisation, parent chain; close callbacks carry the opening data), return count, rejection with path:line. evaluation = one document; distinct = distinct expected results.' ' Every twelfth Apache document carries string arguments of 1000..6000 characters (lines beyond 4 KiB); every twentieth INI document has one value with 64..300 distinct references, repeated references and a chain of 70..200 definitions.',
    require=['ini_documents_parse_file', 'ini_documents_parse_str', 'ini_entries_compared', 'callbacks_compared', 'apache_documents_accepted_by_reference',
             'apache_documents_rejected_by_reference', 'apache_fault:count', 'apache_fault:type', 'apache_fault:scope', 'apache_fault:unclosed', 'apache_fault:mismatch', 'apache_fault:unknown'],
    assumptions=['reference semantics in refs/gen_conf.py follow the doc comments of qconfig.c / qaconf.c and examples/; undocumented forms are not generated (lines without separator, undefined ${name}, ${!cmd}, blanks before ">", +signed numbers, callbacks inside unknown sections)',
                 'asan build: memory errors on well-formed input are reported as well'])


def c17_pre(tier, seed, bdir):
    import subprocess, sys, os
    from vf import VERIF, Inconclusive
    n = 1500 if tier == 'thorough' else 300
    r = subprocess.run([sys.executable, os.path.join(VERIF, 'refs', 'gen_conf.py'), os.path.join(bdir, 'conf'), str(seed), str(n), str(n)],
                       stdout=subprocess.PIPE, stderr=subprocess.STDOUT, text=True)
    if r.returncode != 0:
        raise Inconclusive('document generator failed: ' + r.stdout[-2000:])


def c17_jobs(tier, seed):
    t = tier == 'thorough'
    W = ('alloc', 'popen')
    js = [Job('h_parse', 'asan', wraps=W, args=['--cases-dir', '{bdir}/conf', '--maxlen', '7' if t else '5', '--mutations', '400000' if t else '10000'], env={'LSAN_OPTIONS': 'detect_leaks=0', 'ASAN_OPTIONS_EXTRA': 'detect_leaks=0'})]
    if t:
        js.append(Job('h_parse', 'vg', wraps=W, tag='h_parse-vg', timeout=7200,
                      runner=['valgrind', '-q', '--error-exitcode=0', '--track-origins=no', '--leak-check=no', '--log-file={out}.vg.%p'],
                      args=['--cases-dir', '{bdir}/conf', '--maxlen', '3', '--mutations', '6000']))
    return js


FUZZ_NAMES = ['qurl_decode', 'qbase64_decode', 'qhex_decode', 'qparse_queries', 'qconfig_parse_str', 'qaconf_parse']


def c17_post(res, tier, seed, bdir, rdir):
    """thorough tier: coverage-guided fuzzing of every decoder/parser with clang libFuzzer + ASan/UBSan (-runs fixed)"""
    if tier != 'thorough':
        return
    import subprocess, os, glob, shutil, re
    from concurrent.futures import ThreadPoolExecutor
    from vf import build_lib, CONFIGS, REPO, INCS, VERIF, Inconclusive
    lib = build_lib(bdir, 'fuzz')
    hdir = os.path.join(VERIF, 'harness')
    incs = sum((['-I', os.path.join(REPO, i)] for i in INCS), []) + ['-I', hdir]
    runs = int(os.environ.get('VF_FUZZ_RUNS', '1500000'))
    seeds_dir = os.path.join(bdir, 'conf')

    def one(n):
        exe = os.path.join(bdir, 'fuzz_%d' % n)
        r = subprocess.run(['clang', '-std=gnu11', '-O1', '-g', '-DFUZZ_TARGET=%d' % n, '-fsanitize=fuzzer,address,undefined', '-fno-sanitize=nonnull-attribute,returns-nonnull-attribute',
                            '-fno-sanitize-recover=all', '-fno-omit-frame-pointer'] + incs + [os.path.join(hdir, 'fuzz_target.c'), os.path.join(hdir, 'wrap_popen.c'), '-o', exe] + lib +
                           ['-Wl,--wrap=popen', '-lpthread', '-lm'], stdout=subprocess.PIPE, stderr=subprocess.STDOUT, text=True)
        if r.returncode != 0:
            return n, None, 'build failed: ' + r.stdout[-1500:]
        corpus = os.path.join(bdir, 'corpus_%d' % n); os.makedirs(corpus, exist_ok=True)
        pat = {4: 'i*.conf', 5: 'a*.conf'}.get(n)
        if pat:
            for f in sorted(glob.glob(os.path.join(seeds_dir, pat)))[:400]:
                shutil.copy(f, corpus)
        else:
            for i, sd in enumerate([b'%41%2', b'a+b%', b'QUJD', b'QQ==', b'41424', b'a=1&b=%20&c', b'%', b'=&=']):
                open(os.path.join(corpus, 's%d' % i), 'wb').write(sd)
        art = os.path.join(bdir, 'fuzz_art_%d_' % n)
        env = dict(os.environ, ASAN_OPTIONS='detect_leaks=0:allocator_may_return_null=1', UBSAN_OPTIONS='print_stacktrace=1')
        nruns = runs // 10 if n == 4 else runs      # the INI target runs ~500 exec/s (classifier + parser), the others 10-100 k/s
        p = subprocess.run([exe, '-runs=%d' % nruns, '-seed=%d' % (seed * 31 + n + 1), '-timeout=10', '-max_len=2048', '-rss_limit_mb=0', '-malloc_limit_mb=2000', '-print_final_stats=1',
                            '-artifact_prefix=' + art, corpus], stdout=subprocess.PIPE, stderr=subprocess.STDOUT, text=True, env=env, timeout=6000)
        return n, p, None
    with ThreadPoolExecutor(6) as ex:
        for n, p, err in ex.map(one, range(6)):
            name = FUZZ_NAMES[n]
            if err:
                res.inconclusive.append('fuzz target %s: %s' % (name, err)); continue
            out = p.stdout
            m = re.search(r'stat::number_of_executed_units:\s*(\d+)', out)
            execs = int(m.group(1)) if m else 0
            res.counters['fuzz_executions:' + name] = execs
            res.counters['evaluations'] = res.counters.get('evaluations', 0) + execs
            mc = re.findall(r'cov: (\d+)', out)
            if mc:
                res.maxes['fuzz_edge_coverage:' + name] = int(mc[-1])
            if p.returncode != 0:
                cls = 'crash'
                mm = re.search(r'ERROR: AddressSanitizer: ([\w-]+)', out) or re.search(r'runtime error: ([^\n]{0,60})', out) or re.search(r'ERROR: libFuzzer: ([\w -]+)', out)
                if mm:
                    cls = re.sub(r'[^\w]+', '-', mm.group(1).strip())[:40]
                arts = glob.glob(os.path.join(bdir, 'fuzz_art_%d_*' % n))
                rp = os.path.join(rdir, 'C17-fuzz-%s-%s.bin' % (name, cls))
                if arts:
                    shutil.copy(arts[0], rp)
                else:
                    open(rp, 'w').write(out[-4000:])
                res.viols.append(('C17', 'fuzz:%s:%s' % (name, cls), rp, 'libFuzzer target %s stopped: %s' % (name, out[-600:].replace('\n', ' | '))))


CHECKS['C17'] = dict(
    title='decoders and parsers memory-safe and terminating on arbitrary input', level='exploration',
    pre=c17_pre, jobs=c17_jobs, post=c17_post,
    rule='evaluation = one call of qurl_decode / qbase64_decode / qhex_decode / qparse_queries / qconfig_parse_str / qconfig_parse_file / qaconf parse on an input in an exactly-sized heap buffer (file parsers: memfd or scratch file) '
         'under ASan+UBSan with a 2 s CPU budget, allocation-count budget (20000; INI parser 4000+|input|/4) and live-bytes budget 64*|input|+64 MiB+|input|^2 (replacement buffers are sized for the worst case, quadratic in the input); in-place decoders additionally: returned length <= input length and NUL at that length. '
         'Inputs: (a) every string up to length L (quick 5, thorough 7; hex L+1, INI file form L-1) over the significant bytes of each format; (b) generated INI / Apache-style documents (refs/gen_conf.py) and random decoder inputs, mutated: truncate, duplicate, delete, bit flips, '
         'inserted quotes/brackets/escapes, trailing backslash, 4095/4096/9000-byte lines, self- and mutually-referential ${..}, hostile @INCLUDE (missing, empty, over-long, and blank-padded lines of 3000-6000 bytes, concentrated on 4078..4101, that name an existing file), 200-20000 unclosed section tags in a row (Apache-style documents), an INI file that includes itself. ${!cmd} is neutralised by a popen interposer. distinct = distinct inputs.' ' One mutation appends a line of 70000 / 1 MiB / 4 MiB bytes that references a 300..8192-byte value (expansion sizes around 2^31 and 2^32).',
    require=['inputs:qurl_decode', 'inputs:qbase64_decode', 'inputs:qhex_decode', 'inputs:qparse_queries', 'inputs:qconfig_parse_str', 'inputs:qconfig_parse_file', 'inputs:qaconf_parse',
             'mutated_documents', 'long_include_lines_naming_an_existing_file', 'deeply_nested_section_documents', 'self_including_documents', 'long_reference_lines', 'branch:url_escape_at_end', 'branch:hex_odd_length', 'branch:apache_unclosed_quote', 'branch:apache_unclosed_section', 'branch:ini_cyclic_reference', 'branch:ini_include',
             'results_delivered', 'errors_reported'],
    assumptions=['gcc 12 ASan/UBSan; uninitialised reads are only visible to the valgrind job of the thorough tier',
                 'a hang is keyed expansion-cycle iff an independent port of the documented ${..} rewriting semantics with round/size limits does not reach a fixpoint on that input'])

# --------------------------------------------------------------------------- manifest texts
NOT_APPLICABLE = {}
DESIGN_REF = {}
LEVEL_NOTE = {}
# ---- round 11: the environment a call runs in (DESIGN.md 10.6); appended to the evidence rules, with the counters that prove it happened
ENV_RULE = {
    'model': ' Every logged operation is entered with a stale errno value chosen by (case, operation); equal keys reach the container through copies that start 0..3 bytes into their block; '
             'a call that does not return within 10 s of CPU is hang:operation. A twin job repeats the harness at about half the volume against the library compiled -O3 -DNDEBUG (release build).',
    'twin': ' A twin job repeats the harness against the library compiled -O3 -DNDEBUG (release build).',
}
for _p in ('C01', 'C02', 'C03', 'C04', 'C05', 'C06', 'C07', 'C08', 'C09', 'C10', 'C12'):
    CHECKS[_p]['rule'] += ENV_RULE['model']
    CHECKS[_p]['require'] = list(CHECKS[_p].get('require', [])) + ['operations_entered_with_nonzero_errno']
for _p in ('C13', 'C14', 'C15', 'C16', 'C18', 'C19', 'C20'):
    CHECKS[_p]['rule'] += ENV_RULE['twin']
CHECKS['C01']['rule'] += ' The installed (user) orderings of every third case leave ENOENT/ENOMEM/EINVAL/ERANGE/0 in errno on every call.'
CHECKS['C01']['require'] += ['tables_whose_comparator_leaves_errno_values']
CHECKS['C06']['rule'] += ' A second handle stays attached to the region for the whole life of the table, must observe the model after every operation, and the two handles swap roles at random.'
CHECKS['C07']['rule'] += ' A second handle stays attached to the region for the whole life of the table, must observe the same keys, values, counters and walk as the model after every operation, and the two handles swap roles at random.'
CHECKS['C07']['require'] = list(CHECKS['C07']['require']) + ['long_lived_second_handle_observations', 'operations_switched_to_the_other_handle']
CHECKS['C08']['rule'] += ' Names include bytes >= 0x80; removes and unique puts are also issued through the name pointer of a stored entry; tables are saved under a lowered RLIMIT_FSIZE (SIGXFSZ ignored) and onto /dev/full: save() may refuse, a file reported as saved must reload completely.'
CHECKS['C08']['require'] += ['removes_through_a_stored_name_pointer', 'size_limited_saves_refused', 'saves_onto_a_full_device']
CHECKS['C09']['rule'] += ' Values of the edge lengths 15..4097 and the indexes INT_MIN, INT_MAX and other far-out values are part of the histories.'
CHECKS['C09']['require'] += ['values_of_edge_length', 'extreme_indexes']
CHECKS['C10']['rule'] += ' Elements are also added through the pointer of a stored element (a copy of element i at position j), and the indexes INT_MIN, INT_MAX and other far-out values are part of the histories.'
CHECKS['C10']['require'] += ['adds_through_a_stored_element_pointer', 'extreme_indexes']
CHECKS['C12']['rule'] += ' One replacement in four is a same-size value equal to the stored one up to its first NUL and different behind it.'
CHECKS['C12']['require'] = list(CHECKS['C12'].get('require', [])) + ['replacements_equal_up_to_the_first_nul']
CHECKS['C15']['rule'] += ' Before the injected call the container is read (non-mutating, on every twin alike), and the battery runs its index-addressed operations at every position, the middle one first.'
CHECKS['C16']['rule'] += ' Every codec call is entered with a stale errno value chosen by (input, call site).'
CHECKS['C16']['require'] = list(CHECKS['C16'].get('require', [])) + ['operations_entered_with_nonzero_errno']
CHECKS['C17']['rule'] += ' Every call is entered with a stale errno value chosen by (case, call number).'
CHECKS['C17']['require'] = list(CHECKS['C17'].get('require', [])) + ['operations_entered_with_nonzero_errno']
CHECKS['C18']['rule'] += ' In the non-ASan job every file range is digested a second time with RLIMIT_AS at 4 KiB (mmap and larger allocations fail): the call may refuse, a digest it delivers must be that of the requested bytes.'
CHECKS['C19']['rule'] += ' qstrtok additionally gets its delimiters in one mutable buffer whose contents change between calls (delimiter set changed after the first field; two strings tokenised alternately), every step checked exactly.'
CHECKS['C19']['require'] = list(CHECKS['C19'].get('require', [])) + ['tokenizer_shared_buffer_scenarios']
CHECKS['C20']['rule'] += ' Every third document is also delivered through a named pipe in odd-sized pieces (the second parse of an Apache document, the only parse of an INI file), every fourth of those with a signal (handler without SA_RESTART) while the reader is blocked; every parse is entered with a stale errno value.'
CHECKS['C20']['require'] = list(CHECKS['C20'].get('require', [])) + ['documents_delivered_through_a_fifo', 'fifo_deliveries_with_a_signal_in_the_middle', 'operations_entered_with_nonzero_errno']

TECHNIQUE = {
    'C17': 'ASan/UBSan on exact-size inputs + CPU/allocation/byte budgets (bounded-progress watchdog) over exhaustive short strings and grammar-aware mutation; valgrind and libFuzzer in the thorough tier',
    'C20': 'grammar-based document generation with reference interpreters on the abstract document; recorded callback stream / entry chain compared verbatim',
    'C19': 'reference-definition oracles + guard bytes + ASan on exact-size buffers, exhaustive over all strings up to length 5/7 over significant alphabets',
    'C18': 'differential oracle against independent reference hashes over a complete (length, alignment, content class) grid + address/tail independence under ASan with exact-end buffers',
    'C16': 'round-trip + format-predicate oracles with an independent RFC 4648 reference, exhaustive over all byte strings up to length 2/3 + random',
    'C13': 'schedule injection (DFS/random over lock/allocator scheduling points) + Wing-Gong linearizability checking of recorded histories; stress with injected delays + conservation checkers; ThreadSanitizer',
    'C15': 'allocator failpoints (k-th allocation of the call, single / all-subsequent) + before/after model equality + invariant walkers + ledger under ASan',
    'C14': 'lock-depth monitor in trylock/unlock interposers + probe-thread trylock, enumerated over functions x outcome classes x allocation-failure index',
    'C12': 'scribble-and-free of caller buffers + retained-copy pool re-verification + allocation-identity checks under ASan',
    'C11': 'ASan+UBSan+LSan (recover mode) + allocation ledger + poisoned guard zones over the C01-C10 workloads with exact-size caller buffers',
    'C10': 'reference-model oracle (array of fixed-size elements) on an exhaustive (n, index, element size, policy, capacity, op) sweep + random histories',
    'C09': 'reference-model oracle (sequence of byte strings) on an exhaustive (n, index, op, limit) sweep + random histories',
    'C08': 'reference-model oracle (ordered multimap x 16 option combinations) + link-invariant walker after every operation',
    'C06': 'reference-model oracle (bounded map with slot accounting) on bounded-exhaustive images + random histories',
    'C07': 'image-graph walker + attach/relocate equivalence + guard zones (ASan-poisoned) after every operation',
    'C05': 'reference-model oracle (map) + chain-invariant walker after every operation; removals directed by chain position',
    'C01': 'reference-model oracle (sorted map) on bounded-exhaustive LLRB shapes + random histories',
    'C02': 'structural-invariant walker + comparator-call counter after every operation',
    'C03': 'reference-model sequence oracle on audited traversals incl. epoch sweep; CPU watchdog',
    'C04': 'reference-model floor oracle + continuation multiset audit; CPU watchdog',
}
LEVEL_TEXT = {
    'C17': 'Every decoder and parser is executed on all strings up to length 5/6 over the significant bytes of its format and on tens of thousands of mutated generated documents, in exactly-sized heap buffers under ASan/UBSan with CPU, allocation and memory budgets as the termination oracle.',
    'C20': 'Thousands of generated INI and Apache-style documents (valid and single-fault) are parsed by the real parsers; entry lists, callback streams, return counts and error lines are compared with reference results derived from the abstract documents.',
    'C19': 'Each routine is compared with an independent reference definition on every string up to length 5 (7 thorough) over the significant bytes, every buffer size for the bounded copies and every (src, token, word) triple for replace, with destinations in exact-size blocks under ASan and guard bytes.',
    'C18': 'Every function is compared with an independent reference on the complete grid of lengths 1..600 x 8 alignments x 5 content classes (and large sizes, file ranges), at two placements with different trailing bytes, under ASan with buffers ending at the allocation end.',
    'C16': 'Every byte string up to length 2 (3 in the thorough tier, 16.8 M strings) and random strings up to 4 KiB are encoded, format-checked against the stated predicates / an independent RFC 4648 encoder, decoded and compared; query lists are assembled and parsed back.',
    'C13': 'Real pthreads run small client programs under enumerated or sampled schedules at lock/allocator granularity; each recorded history is checked for linearizability against a sequential model; truly concurrent stress histories are checked by per-key linearizability / conservation rules and by ThreadSanitizer.',
    'C15': 'Fault enumeration: every allocating operation is executed from every state of a corpus with each of its allocations failing in turn; the reference model, structural walkers, a follow-up battery, the allocation ledger and ASan decide.',
    'C14': 'Fault enumeration: each public function of each lockable container is executed for each outcome class it can produce and with each of its allocations failing in turn; the lock depth seen by the interposed pthread primitives must be balanced and a second thread must be able to take the lock.',
    'C12': 'Every put-like call gets throw-away exact-size buffers that are scribbled and freed immediately, every copying accessor of every container is exercised and its result retained, re-verified after later mutations and after release, and finally freed, all under ASan with an allocation ledger.',
    'C11': 'All container harnesses are re-executed on an address/undefined-behaviour/leak-checking build with exactly-sized caller buffers; every sanitizer report block is parsed and keyed by (class, library function), and a ledger proves every allocation is released with the container.',
    'C10': 'Every call on the real vector is compared with an array model for 5 element sizes x 3 growth policies x 4 initial capacities, every index in [-n-2,n+2] for n<=10, and random histories with resizes including to zero; the raw element buffer is compared after every operation.',
    'C09': 'Every call on the real list/queue/stack/grow buffer is compared with a sequence model, refused calls are verified effect-free by full state comparison, and every (length, index, operation, limit) cell up to length 12 is executed.',
    'C08': 'Every result of the real list table is compared with an ordered-multimap model under all 16 option combinations, the raw chain order is compared after every operation, and save/load round trips are executed on real files.',
    'C06': 'Every result, errno and counter of the real static hash table is compared with a bounded-map model including the exact fit rule, on every operation applied to every reachable image for small capacities and on random histories driven to and past full.',
    'C07': 'An independent walker validates the slot graph after every operation; second handles on the same memory and on relocated byte copies must observe identical contents and can continue; poisoned guard zones catch any access outside the user region.',
    'C05': 'Every result of the real hash table is compared with an association-array model over ranges 1,2,3,7,64 and default, with chains up to 40 long and removal forced at head/middle/tail; a walker recomputes every slot placement with an independent MurmurHash3.',
    'C01': 'Every API result of the real tree table is compared with an independent sorted-map model, on every put/remove applied to every reachable LLRB shape over a bounded key universe (5 orderings x 6 key classes) and on long seeded random histories; held on what was executed, not a proof.',
    'C02': 'An independent LLRB walker and qtreetbl_check() run after every single operation of the same workloads, and lookup cost is measured by a counting comparator against 2*log2(n+1).',
    'C03': 'Audited complete walks after arbitrary histories, with the 8-bit epoch driven through several wraps and walks started right after fresh inserts and root changes.',
    'C04': 'Every nearest-key search is judged against floor semantics on the model under a CPU budget; continuations audited when no walk is pending; every universe key probed at every reachable shape.',
}
