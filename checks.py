"""checks.py - per-property check specifications used by vf.py"""
from vf import Job, NCPU

CHECKS = {}

TREE_ASSUME = ['the harness-side sorted-array model and orderings (h_tree.c) are correct',
               'x86-64 / glibc / gcc 12; library built -O1 from the working tree with -DQLIBC_VERIF',
               'shapes are de-duplicated by a 64-bit hash of (key bytes, colour) in pre-order']


def tree_jobs(prop, q_args, t_args):
    def jobs(tier, seed):
        return [Job('h_tree', 'plain', args=(t_args if tier == 'thorough' else q_args))]
    return jobs


CHECKS['C01'] = dict(
    title='tree table exact sorted map', level='exploration',
    jobs=tree_jobs('C01', ['--universe', '10', '--cases', '600'], ['--universe', '12', '--cases', '4000']),
    rule='evaluation = one API call compared with the sorted-map model, followed by a full content comparison '
         '(every universe key, size, min, max). Phase A enumerates breadth-first every LLRB shape reachable by put/remove '
         'over the universe, per (ordering, key class) configuration, applying every put/remove to every shape; phase B runs '
         'seeded random histories over universes of 4/16/64/1024 keys. distinct = distinct (configuration, tree shape) pairs '
         'reached, shape = pre-order of (key, colour).',
    exhaustive=lambda res, tier: False,
    require=['content_compares', 'put_replace', 'remove_absent', 'remove_inner_with_successor', 'remove_leaf_or_bottom', 'exhaustive_shapes'],
    assumptions=TREE_ASSUME)

CHECKS['C02'] = dict(
    title='tree table valid LLRB, logarithmic lookups', level='exploration',
    jobs=tree_jobs('C02', ['--universe', '10', '--cases', '600', '--big', '16', '--bign', '5000'], ['--universe', '12', '--cases', '4000', '--big', '32', '--bign', '20000']),
    rule='evaluation = one put/remove/get (including failed removes and replacing puts) after which the independent walker '
         '(order, black root, no red-red, equal black height, no right-leaning lone red, node count) and qtreetbl_check() are evaluated; '
         'lookup cost = comparator calls of getobj, bound 2^cmp <= (n+1)^2. distinct = distinct (configuration, shape) pairs.',
    require=['structure_checks', 'lookups_cost_checked', 'exhaustive_shapes', 'remove_absent', 'put_replace'],
    assumptions=TREE_ASSUME)

CHECKS['C03'] = dict(
    title='tree traversal ascending exactly-once', level='exploration',
    jobs=tree_jobs('C03', ['--universe', '9', '--cases', '400'], ['--universe', '11', '--cases', '3000']),
    rule='evaluation = one operation of a history of put/remove/complete walks/abandoned walks/nearest searches; every complete '
         'walk from a zeroed cursor is compared element by element (key, key size, value, value size) with the model order and must end once. '
         'distinct = distinct (configuration, tree shape, epoch value) triples at which an audited walk completed.',
    require=['complete_walks_audited', 'abandoned_walks', 'epoch_wraps', 'walks_started_after_fresh_insert', 'walks_started_after_root_change'],
    assumptions=TREE_ASSUME + ['CPU budget 2 s per getnext call decides non-termination'])

CHECKS['C04'] = dict(
    title='nearest-key search floor semantics / termination', level='exploration',
    jobs=tree_jobs('C04', ['--universe', '9', '--cases', '600'], ['--universe', '11', '--cases', '4000']),
    rule='evaluation = one operation; every find_nearest result is compared with floor(probe) on the model (min if no floor, ENOENT on empty) under a 2 s CPU budget; '
         'continuations are audited as a multiset when no walk is pending. distinct = distinct (configuration, tree shape, probe key) triples.',
    require=['probes', 'probe_equal', 'probe_in_gap', 'probe_below_min', 'probe_above_max', 'probes_after_root_change', 'continuations_audited'],
    assumptions=TREE_ASSUME + ['CPU budget 2 s per call decides non-termination'])

# --------------------------------------------------------------------------- manifest texts
NOT_APPLICABLE = {}
DESIGN_REF = {}
LEVEL_NOTE = {}
TECHNIQUE = {
    'C01': 'reference-model oracle (sorted map) on bounded-exhaustive LLRB shapes + random histories',
    'C02': 'structural-invariant walker + comparator-call counter after every operation',
    'C03': 'reference-model sequence oracle on audited traversals incl. epoch sweep; CPU watchdog',
    'C04': 'reference-model floor oracle + continuation multiset audit; CPU watchdog',
}
LEVEL_TEXT = {
    'C01': 'Every API result of the real tree table is compared with an independent sorted-map model, on every put/remove applied to every reachable LLRB shape over a bounded key universe (5 orderings x 6 key classes) and on long seeded random histories; held on what was executed, not a proof.',
    'C02': 'An independent LLRB walker and qtreetbl_check() run after every single operation of the same workloads, and lookup cost is measured by a counting comparator against 2*log2(n+1).',
    'C03': 'Audited complete walks after arbitrary histories, with the 8-bit epoch driven through several wraps and walks started right after fresh inserts and root changes.',
    'C04': 'Every nearest-key search is judged against floor semantics on the model under a CPU budget; continuations audited when no walk is pending; every universe key probed at every reachable shape.',
}
