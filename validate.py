#!/usr/bin/env python3
"""validate.py - schema-validate MANIFEST.json and evidence/*.json (run with python3-vt, which has jsonschema)"""
import json, glob, sys, jsonschema
ok = True
def v(f, s):
    global ok
    try:
        jsonschema.validate(json.load(open(f)), json.load(open(s))); print('valid  ', f)
    except Exception as e:
        ok = False; print('INVALID', f, str(e)[:300])
v('/verif/MANIFEST.json', '/root/.vp/MANIFEST.schema.json')
for f in sorted(glob.glob('/verif/evidence/*.json')):
    v(f, '/root/.vp/EVIDENCE.schema.json')
sys.exit(0 if ok else 1)
