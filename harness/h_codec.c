/* h_codec.c - C16: URL / Base64 / hex encoders and decoders are exact inverses and emit the
 * standard formats; query strings assembled from encoded pairs parse back to the same pairs.
 * Independent reference encoders (RFC 4648 Base64, lowercase hex) are self-tested against
 * published vectors at start-up.
 */
#define _GNU_SOURCE
#include <stdlib.h>
#include <string.h>
#include <ctype.h>
#include "qlibc.h"
#include "vfc.h"
#include <errno.h>

static rng_t R;

/* ---- references ------------------------------------------------------------------------------- */
static const char B64[] = "ABCDEFGHIJKLMNOPQRSTUVWXYZabcdefghijklmnopqrstuvwxyz0123456789+/";
static size_t ref_b64(const unsigned char *in, size_t n, char *out) {
    size_t o = 0;
    for (size_t i = 0; i < n; i += 3) {
        uint32_t v = (uint32_t)in[i] << 16 | (i + 1 < n ? (uint32_t)in[i + 1] << 8 : 0) | (i + 2 < n ? in[i + 2] : 0);
        out[o++] = B64[v >> 18 & 63]; out[o++] = B64[v >> 12 & 63];
        out[o++] = i + 1 < n ? B64[v >> 6 & 63] : '='; out[o++] = i + 2 < n ? B64[v & 63] : '=';
    }
    out[o] = 0; return o;
}
static void selftest(void) {
    static const char *V[][2] = {{"", ""}, {"f", "Zg=="}, {"fo", "Zm8="}, {"foo", "Zm9v"}, {"foob", "Zm9vYg=="}, {"fooba", "Zm9vYmE="}, {"foobar", "Zm9vYmFy"}};   /* RFC 4648 section 10 */
    char out[32];
    for (int i = 0; i < 7; i++) { ref_b64((const unsigned char *)V[i][0], strlen(V[i][0]), out); if (strcmp(out, V[i][1])) { fprintf(stderr, "h_codec: reference Base64 fails RFC 4648 vector %d\n", i); exit(2); } }
    unsigned char hi[3] = {0xfb, 0xff, 0xfe}; ref_b64(hi, 3, out); if (strcmp(out, "+//+")) { fprintf(stderr, "h_codec: reference Base64 alphabet\n"); exit(2); }
}

static bool fail(const char *key, const unsigned char *x, size_t n, const char *fmt, ...) __attribute__((format(printf, 4, 5)));
static bool fail(const char *key, const unsigned char *x, size_t n, const char *fmt, ...) {
    char msg[500]; va_list ap; va_start(ap, fmt); vsnprintf(msg, sizeof msg, fmt, ap); va_end(ap);
    vf_log("input %s", vf_hex(x, n));
    vf_viol("C16", key, "%s (input %s)", msg, vf_hex(x, n));
    return false;
}
static const char FORBIDDEN[] = "%+&=?#\"<>";

/* all three codecs on one byte string */
/* every library call is entered with a stale errno value chosen by (input, call site): none of the codecs may depend on it */
static uint64_t EEH;
#define EE(site) (errno = vf_entry_errno_for(EEH + (uint64_t)(site) * 0x9E3779B97F4A7C15ULL))
static void check_string(const unsigned char *x, size_t n) {
    unsigned char *in = vf_xdup(x, n);          /* exact-size heap copy */
    EEH = vf_hash(x, n, VF_H0 + VF.seed);
    /* --- URL */
    EE(1); char *u = qurl_encode(in, n);
    if (!u) { fail("url-null", x, n, "qurl_encode returned NULL"); hm_free(in); return; }
    size_t ul = strlen(u), ip = 0; bool ok = true;
    for (size_t i = 0; i < ul && ok; ) {
        unsigned char c = (unsigned char)u[i];
        if (c == '%') {
            if (i + 2 >= ul) { ok = fail("url-format", x, n, "truncated escape in %s", u); break; }
            if (!isxdigit((unsigned char)u[i + 1]) || !isxdigit((unsigned char)u[i + 2])) { ok = fail("url-format", x, n, "escape without two hex digits in %s", u); break; }
            unsigned v = (unsigned)strtoul((char[]){u[i + 1], u[i + 2], 0}, NULL, 16);
            if (ip >= n || v != x[ip]) { ok = fail("url-escape-value", x, n, "escape %%%c%c does not denote input byte %zu", u[i + 1], u[i + 2], ip); break; }
            ip++; i += 3;
        } else {
            if (c <= 0x20 || c >= 0x7f || strchr(FORBIDDEN, c)) { ok = fail("url-unsafe-literal", x, n, "byte 0x%02x emitted literally", c); break; }
            if (ip >= n || c != x[ip]) { ok = fail("url-literal-value", x, n, "literal '%c' is not input byte %zu", c, ip); break; }
            ip++; i++;
        }
    }
    if (ok && ip != n) ok = fail("url-length", x, n, "encoding covers %zu of %zu input bytes", ip, n);
    if (ok) {
        char *d = vf_xdup(u, ul + 1);
        EE(2); size_t dl = qurl_decode(d);
        if (dl != n || memcmp(d, x, n)) fail("url-roundtrip", x, n, "decode(encode(x)) has length %zu and/or other bytes", dl);
        hm_free(d);
        /* decoder leniency: upper-case hex digits and '+' for space */
        d = vf_xdup(u, ul + 1); for (size_t i = 0; i < ul; i++) d[i] = (char)toupper((unsigned char)d[i]);
        bool has_alpha = false; for (size_t i = 0; i < n; i++) if (isalpha(x[i])) has_alpha = true;
        if (!has_alpha) { EE(3); dl = qurl_decode(d); if (dl != n || memcmp(d, x, n)) fail("url-uppercase-hex", x, n, "upper-case escapes are not decoded to the same bytes"); }
        hm_free(d);
        /* replace every %20 by '+' */
        d = hm_alloc(ul + 1); size_t o = 0; for (size_t i = 0; i < ul; ) { if (u[i] == '%' && u[i + 1] == '2' && u[i + 2] == '0') { d[o++] = '+'; i += 3; } else d[o++] = u[i++]; } d[o] = 0;
        EE(4); dl = qurl_decode(d); if (dl != n || memcmp(d, x, n)) fail("url-plus-for-space", x, n, "'+' is not decoded as a space");
        hm_free(d);
    }
    free(u);
    vf_count("url_strings", 1);
    /* --- Base64 */
    EE(5); char *b = qbase64_encode(in, n);
    if (!b) { fail("b64-null", x, n, "qbase64_encode returned NULL"); hm_free(in); return; }
    { char *ref = hm_alloc(4 * (n / 3 + 1) + 1); ref_b64(x, n, ref);
      if (strcmp(b, ref)) fail("b64-format", x, n, "qbase64_encode gives %.60s, RFC 4648 gives %.60s", b, ref);
      else { char *d = vf_xdup(b, strlen(b) + 1); EE(6); size_t dl = qbase64_decode(d); if (dl != n || memcmp(d, x, n)) fail("b64-roundtrip", x, n, "decode(encode(x)) has length %zu and/or other bytes", dl); hm_free(d); }
      hm_free(ref); }
    free(b);
    vf_count("base64_strings", 1);
    /* --- hex */
    EE(7); char *h = qhex_encode(in, n);
    if (!h) { fail("hex-null", x, n, "qhex_encode returned NULL"); hm_free(in); return; }
    bool hok = strlen(h) == 2 * n;
    for (size_t i = 0; i < n && hok; i++) { static const char HX[] = "0123456789abcdef"; if (h[2 * i] != HX[x[i] >> 4] || h[2 * i + 1] != HX[x[i] & 15]) hok = false; }
    if (!hok) fail("hex-format", x, n, "qhex_encode gives %.60s", h);
    else { char *d = vf_xdup(h, 2 * n + 1); EE(8); size_t dl = qhex_decode(d); if (dl != n || memcmp(d, x, n)) fail("hex-roundtrip", x, n, "decode(encode(x)) has length %zu and/or other bytes", dl); hm_free(d);
           d = vf_xdup(h, 2 * n + 1); for (size_t i = 0; i < 2 * n; i++) d[i] = (char)toupper((unsigned char)d[i]); EE(9); dl = qhex_decode(d); if (dl != n || memcmp(d, x, n)) fail("hex-uppercase", x, n, "upper-case hex digits are not decoded to the same bytes"); hm_free(d); }
    free(h);
    vf_count("hex_strings", 1);
    hm_free(in);
    vf_count("evaluations", 1);
}

/* ---- query strings ---------------------------------------------------------------------------- */
static void check_query(long caseno) {
    EEH = (uint64_t)caseno * 0xC2B2AE3D27D4EB4FULL + VF.seed;
    int np = (int)rng_below(&R, 13);
    /* '=' only: the URL encoder leaves ':' literal, so ':' as name/value separator is outside what URL-encoding protects */
    static const char SEPS[] = "&;";
    char sep = SEPS[rng_below(&R, 2)], eq = "==|,\t"[rng_below(&R, 5)];      /* the caller's equal character: any byte the encoder always escapes ('=' '|' ',' TAB; not ':' which it leaves literal) */
    char names[12][40], vals[12][40]; size_t cap = 16; char *q = hm_alloc(cap); size_t ql = 0; q[0] = 0;
    for (int i = 0; i < np; i++) {
        size_t nl = rng_below(&R, 4) == 0 ? 0 : rng_below(&R, 12), vl = rng_below(&R, 4) == 0 ? 0 : rng_below(&R, 12);
        if (nl == 0 && vl == 0) nl = 1;                       /* an entirely empty pair would be an empty element */
        for (size_t k = 0; k < nl; k++) names[i][k] = (char)(1 + rng_below(&R, 255)); names[i][nl] = 0;
        for (size_t k = 0; k < vl; k++) vals[i][k] = (char)(1 + rng_below(&R, 255)); vals[i][vl] = 0;
        char *en, *ev; EE(10 + i); en = qurl_encode(names[i], nl); EE(30 + i); ev = qurl_encode(vals[i], vl);
        size_t need = ql + strlen(en) + strlen(ev) + 4; if (need > cap) { cap = need * 2; q = vf_xrealloc(q, cap); }
        ql += (size_t)sprintf(q + ql, "%s%s%c%s", i ? (char[]){sep, 0} : "", en, eq, ev);
        free(en); free(ev);
    }
    char *qx = vf_xdup(q, ql + 1);
    vf_case_begin(caseno, "query round trip: %d pairs sep='%c' eq='%c' query=%.200s", np, sep, eq, q);
    int cnt = -1;
    EE(50); qlisttbl_t *t = qparse_queries(NULL, qx, eq, sep, &cnt);
    if (!t) { vf_viol("C16", "query-null", "qparse_queries returned NULL"); hm_free(q); hm_free(qx); return; }
    if (cnt != np || t->size(t) != (size_t)np) vf_viol("C16", "query-count", "parsed %d pairs (size %zu), %d were assembled", cnt, t->size(t), np);
    else { int i = 0; for (qlisttbl_obj_t *o = t->first; o; o = o->next, i++)
             if (strcmp(o->name, names[i]) || o->size != strlen(vals[i]) + 1 || strcmp(o->data, vals[i])) { vf_viol("C16", "query-pair", "pair %d parsed as (%s,%s), assembled (%s,%s)", i, vf_hex(o->name, strlen(o->name)), vf_hex(o->data, o->size), vf_hex(names[i], strlen(names[i])), vf_hex(vals[i], strlen(vals[i]))); break; } }
    if (strcmp(q, qx)) vf_viol("C16", "query-input-modified", "qparse_queries modified the caller's query string");
    /* second call into the same (caller-supplied, now non-empty) table, and without the optional counter: the count is that of this call, the pairs are appended in order */
    if (t->lookupforward == false && t->inserttop == false) {
        int cnt2 = -1; EE(51); qlisttbl_t *t2 = qparse_queries(t, qx, eq, sep, (caseno & 1) ? &cnt2 : NULL);
        if (t2 != t) vf_viol("C16", "query-table", "qparse_queries did not return the table it was given");
        else if (((caseno & 1) && cnt2 != np) || t->size(t) != (size_t)(2 * np)) vf_viol("C16", "query-count-second-call", "second call reported %d pairs (table size %zu), the query holds %d and the table held %d", cnt2, t->size(t), np, np);
        else { int i = 0; for (qlisttbl_obj_t *o = t->first; o; o = o->next, i++) if (strcmp(o->name, names[i % np]) || strcmp(o->data, vals[i % np])) { vf_viol("C16", "query-pair", "after a second call entry %d is (%s,%s)", i, vf_hex(o->name, strlen(o->name)), vf_hex(o->data, o->size)); break; } }
        int cnt3 = -1; qparse_queries(t, "", eq, sep, &cnt3); if (cnt3 != 0) vf_viol("C16", "query-count-empty", "an empty query reported %d pairs", cnt3);
        vf_count("query_second_calls", 1);
    }
    t->free(t);
    hm_free(q); hm_free(qx);
    vf_count("query_lists", 1); vf_count("evaluations", 1);
    vf_distinct("distinct", vf_hash(&caseno, sizeof caseno, VF_H0 + 5));
}

int main(int argc, char **argv) {
    vf_init(argc, argv, "h_codec");
    if (strcmp(VF.prop, "C16")) { fprintf(stderr, "h_codec: unsupported property %s\n", VF.prop); return 2; }
    selftest();
    int maxlen = (int)vf_arg_long("exhaustive-len", 2);
    long nrand = vf_arg_long("random", 20000), nquery = vf_arg_long("queries", 20000);
    /* exhaustive: every byte string of length 0..maxlen; the first byte selects the shard */
    long caseno = 0;
    for (int len = 0; len <= maxlen; len++) {
        unsigned long total = 1; for (int i = 0; i < len; i++) total *= 256;
        for (unsigned long v = 0; v < total; v++) {
            if (len == 0 ? VF.shard != 0 : (int)((v >> (8 * (len - 1))) % (unsigned long)VF.nshards) != VF.shard) continue;
            if (VF.only_case >= 0 && VF.only_case != (long)(len * 100000000L + (long)v)) continue;
            unsigned char x[4]; for (int i = 0; i < len; i++) x[i] = (unsigned char)(v >> (8 * (len - 1 - i)));
            vf_cur_case = len * 100000000L + (long)v; vf_cur_op = 0;
            check_string(x, (size_t)len);
            vf_count("exhaustive_strings", 1);
            if (len <= 2) vf_distinct("distinct", vf_hash(x, (size_t)len, VF_H0 + (uint64_t)len));
            if (vf_nviol >= 30) goto done;
        }
        if (len >= 3) vf_count("exhaustive_len3_partition_done", 1);
    }
    caseno = 500000000L;
    /* random strings: every length 4..4096 at least once in thorough, sampled in quick; content classes */
    for (long i = 0; i < nrand; i++, caseno++) {
        if (!vf_mine(caseno)) continue;
        rng_seed(&R, VF.seed, (uint64_t)caseno);
        size_t len = VF.thorough && i < 4093 ? 4 + (size_t)i : 4 + rng_below(&R, rng_chance(&R, 1, 10) ? 4093 : 60);
        unsigned char *x = hm_alloc(len); int cls = (int)rng_below(&R, 4);
        for (size_t k = 0; k < len; k++) x[k] = cls == 0 ? (unsigned char)rng_below(&R, 256) : cls == 1 ? 0 : cls == 2 ? 0xff : (unsigned char)(32 + rng_below(&R, 95));
        vf_case_begin(caseno, "random string len=%zu class=%d", len, cls);
        check_string(x, len);
        vf_count("random_strings", 1); vf_max("max_string_length", (long)len);
        vf_distinct("distinct", vf_hash(x, len, VF_H0));
        if (i < 3) vf_sample("random string #%ld: length %zu class %s", i, len, (const char *[]){"random", "all-zero", "all-0xff", "ascii"}[cls]);
        hm_free(x);
    }
    /* long strings: 64 KiB, 128 KiB, 1 MiB and 4 MiB boundaries (counters of 16 bits and block bookkeeping) */
    caseno = 600000000L;
    { static const size_t LG[] = {65535, 65536, 65537, 65538, 65539, 131071, 131072, 131073, 196608, 200000, 1048575, 1048577, (4u << 20) + 1};
      for (size_t i = 0; i < sizeof LG / sizeof LG[0]; i++, caseno++) { if (!vf_mine(caseno)) continue;
          rng_seed(&R, VF.seed, (uint64_t)caseno); size_t len = LG[i]; unsigned char *x = hm_alloc(len); int cls = (int)(i % 3);
          for (size_t k = 0; k < len; k++) x[k] = cls == 0 ? (unsigned char)rng_next(&R) : cls == 1 ? (unsigned char)(32 + k % 95) : (unsigned char)(k * 7 + (k >> 16));
          vf_case_begin(caseno, "long string len=%zu class=%d", len, cls);
          check_string(x, len); vf_count("long_strings", 1); vf_max("max_string_length", (long)len); vf_distinct("distinct", vf_hash(x, len, VF_H0)); hm_free(x); } }
    /* beyond 2 GiB (thorough tier): Base64 and hex, checked block-wise against the reference encoder */
    if (vf_arg_long("huge", 0)) for (int which = 0; which < 2; which++, caseno++) { if (!vf_mine(caseno)) continue;
        size_t len = ((size_t)1 << 31) + (which ? 16 : 300); unsigned char *x = malloc(len);
        vf_case_begin(caseno, "%s of %zu bytes", which ? "hex" : "Base64", len);
        if (!x) { vf_count("huge_string_unallocatable", 1); continue; }
        for (size_t k = 0; k < len; k += 8) { uint64_t v = k * 0x9E3779B97F4A7C15ULL; memcpy(x + k, &v, len - k < 8 ? len - k : 8); }
        char *e = which ? qhex_encode(x, len) : qbase64_encode(x, len);
        size_t want = which ? 2 * len : 4 * ((len + 2) / 3);
        if (!e) { vf_count("huge_string_unallocatable", 1); free(x); continue; }
        size_t el = strlen(e); bool ok = true;
        if (el != want) { ok = false; fail(which ? "hex-format" : "b64-format", x, 16, "the encoding of %zu bytes has %zu characters, expected %zu", len, el, want); }
        for (size_t off = 0; ok && off < len; off += 3 * 4096) { size_t n = len - off < 3 * 4096 ? len - off : 3 * 4096; char ref[4 * 4096 * 2 + 8];
            if (which) { static const char HX[] = "0123456789abcdef"; for (size_t i = 0; i < n; i++) { ref[2 * i] = HX[x[off + i] >> 4]; ref[2 * i + 1] = HX[x[off + i] & 15]; } if (memcmp(e + 2 * off, ref, 2 * n)) { ok = false; fail("hex-format", x, 16, "the encoding of %zu bytes differs from the reference in the block at input offset %zu", len, off); } }
            else { size_t rl = ref_b64(x + off, n, ref); if (memcmp(e + off / 3 * 4, ref, rl)) { ok = false; fail("b64-format", x, 16, "the encoding of %zu bytes differs from RFC 4648 in the block at input offset %zu", len, off); } } }
        if (ok) { size_t dl = which ? qhex_decode(e) : qbase64_decode(e); if (dl != len || memcmp(e, x, len)) fail(which ? "hex-roundtrip" : "b64-roundtrip", x, 16, "decode(encode(x)) of %zu bytes has length %zu and/or other bytes", len, dl); }
        free(e); free(x); vf_count("huge_strings", 1); vf_count("evaluations", 1); vf_max("max_string_length", (long)len); }
    caseno = 700000000L;
    for (long i = 0; i < nquery; i++, caseno++) { if (!vf_mine(caseno)) continue; rng_seed(&R, VF.seed, (uint64_t)caseno); check_query(caseno); }
done:
    if (VF.shard == 0) vf_sample("exhaustive: every byte string of length 0..%d through URL, Base64 and hex encode/format-check/decode (shards partition by first byte)", maxlen);
    return vf_finish() ? 1 : 0;
}
