/* h_vector.c - vector (qvector) under the monitor of C10 (and C11 in the asan build).
 * Reference model: array of fixed-size elements; negative index i -> n+i for insertion and access.
 */
#define _GNU_SOURCE
#include <stdlib.h>
#include <string.h>
#include <errno.h>
#include <pthread.h>
#include <stdint.h>
#include "qlibc.h"
#include "vfc.h"
#include <limits.h>
/* the print helpers (debug()) run on real contents now and then: C11 covers what they read */
static FILE *DEVNULL; static unsigned long DBGCTR;
#define DEBUG_NOW() (((++DBGCTR) % 61) == 0 && (DEVNULL || (DEVNULL = fopen("/dev/null", "w"))))


static rng_t R;
static int P;
static bool abandon;
static long ledger_mark;
static qvector_t *V;
static size_t ES;                         /* element size */
static unsigned char *M; static int MN, MCAPN;   /* model: MN elements of ES bytes */
static long valctr;

static bool judge(const char *prop, const char *key, const char *fmt, ...) __attribute__((format(printf, 3, 4)));
static bool judge(const char *prop, const char *key, const char *fmt, ...) {
    char msg[600]; va_list ap; va_start(ap, fmt); vsnprintf(msg, sizeof msg, fmt, ap); va_end(ap);
    abandon = true;
    if (!strcmp(prop, VF.prop)) { vf_viol(prop, key, "%s", msg); return true; }
    vf_count("other_property_oracle_mismatch", 1);
    return true;
}
static unsigned char *mel(int i) { return M + (size_t)i * ES; }
static void m_reserve(int n) { if (n > MCAPN) { MCAPN = n * 2 + 16; M = vf_xrealloc(M, (size_t)MCAPN * ES); } }
static void m_ins(int pos, const void *d) { m_reserve(MN + 1); memmove(mel(pos + 1), mel(pos), (size_t)(MN - pos) * ES); memcpy(mel(pos), d, ES); MN++; }
static void m_del(int pos) { memmove(mel(pos), mel(pos + 1), (size_t)(MN - pos - 1) * ES); MN--; }

static unsigned char EBUF[80];
static void gen_elem(void) {
    valctr++;
    uint32_t c = rng_below(&R, 8);
    for (size_t i = 0; i < ES; i++) EBUF[i] = c == 0 ? 0 : (unsigned char)rng_below(&R, 256);   /* zero-filled elements included */
    if (c) { EBUF[0] = (unsigned char)valctr; if (ES > 1) EBUF[1] = (unsigned char)(valctr >> 8); }
}


/* optional out-parameters are NULL in one call out of four; the variable is preset to what the callee would have stored */
static size_t *optout(size_t *p, size_t expect) { if (rng_chance(&R, 1, 4)) { *p = expect; vf_count("calls_with_null_out_parameter", 1); return NULL; } return p; }
static void vec_check(void) {
    if (DEBUG_NOW()) { V->debug(V, DEVNULL); vf_count("debug_prints", 1); }
    vf_count("state_compares", 1);
    if (V->size(V) != (size_t)MN) { judge("C10", "size", "size()=%zu model=%d", V->size(V), MN); return; }
    if (V->objsize != ES) { judge("C10", "objsize", "element size changed from %zu to %zu", ES, V->objsize); return; }
    if (V->num > V->max) { judge("C10", "num>max", "num=%zu max=%zu", V->num, V->max); return; }
    if ((V->data != NULL) != (V->max > 0)) { judge("C10", "data-vs-max", "data=%p max=%zu", V->data, V->max); return; }
    if (MN && memcmp(V->data, M, (size_t)MN * ES)) {
        int i = 0; while (i < MN && !memcmp((char *)V->data + (size_t)i * ES, mel(i), ES)) i++;
        judge("C10", "content", "element %d is %s, model %s (n=%d)", i, vf_hex((char *)V->data + (size_t)i * ES, ES), vf_hex(mel(i), ES), MN); return; }
}
static const int POL[3] = {QVECTOR_RESIZE_EXACT, QVECTOR_RESIZE_LINEAR, QVECTOR_RESIZE_DOUBLE};
static const char *POLN[3] = {"exact", "linear", "double"};
static void vec_new(size_t cap, size_t es, int pol) {
    ledger_mark = vf_ledger_mark();
    ES = es; MN = 0; hm_free(M); M = NULL; MCAPN = 0; m_reserve(8);
    static unsigned long vctr; vctr++;
    V = qvector(cap, es, POL[pol] | ((vctr & 1) ? QVECTOR_THREADSAFE : 0));      /* every other vector is thread-safe: "fully usable" includes other threads (usable_by_others) */
    if (!V) { fprintf(stderr, "qvector() failed\n"); exit(2); }
    abandon = false;
}
static void vec_free(void) {
    V->free(V); V = NULL;
    long live = vf_ledger_live_since(ledger_mark);
    vf_count("containers_released", 1);
    if (live) judge("C11", "leak:qvector", "%ld block(s) still live after free()", live);
    else vf_count("containers_released_leak_free", 1);
    if (vf_foreign_frees) { judge("C11", "bad-free:qvector", "free() of a pointer the library never allocated / already freed"); vf_foreign_frees = 0; }
}

static void v_add(int how, int index) {
    gen_elem();
    unsigned char *eb = vf_xdup(EBUF, ES);
    int ins = how == 0 ? 0 : how == 1 ? MN : (index < 0 ? MN + index : index);
    bool ok = ins >= 0 && ins <= MN;
    size_t oldmax = V->max;
    vf_log("%s(%d) e=%s n=%d max=%zu", how == 0 ? "addfirst" : how == 1 ? "addlast" : "addat", index, vf_hex(EBUF, ES), MN, V->max);
    errno = 0;
    bool r = how == 0 ? V->addfirst(V, eb) : how == 1 ? V->addlast(V, eb) : V->addat(V, index, eb);
    int e = errno;
    memset(eb, 0xA5, ES); hm_free(eb);
    vf_count(ok ? "add_ok" : "add_refused_range", 1);
    if (r != ok) { judge("C10", "add", "add returned %d, model %d (position %d of %d)", r, ok, ins, MN); return; }
    if (r) { m_ins(ins, EBUF); if (V->max != oldmax) vf_count("automatic_growths", 1); }
    else { if (e != ERANGE) judge("C10", "add-errno", "refused add errno=%d", e); vf_count("refused_calls_verified_effect_free", 1); }
}
/* the new element is one of the vector's own elements, passed through the pointer a non-copying get handed out (duplicate element i at position j):
 * the buffer may move for the growth and the tail is shifted before the element is copied */
static void v_add_own(void) {
    if (!MN) return;
    int from = (int)rng_below(&R, (uint32_t)MN), ins = (int)rng_below(&R, (uint32_t)MN + 1);
    void *p = V->getat(V, from, false);
    if (!p) { judge("C10", "get", "getat(%d) returned NULL on %d elements", from, MN); return; }
    unsigned char want[80]; memcpy(want, mel(from), ES);
    vf_log("addat(%d) with the stored element %d (own pointer) n=%d max=%zu", ins, from, MN, V->max);
    bool r = ins == MN && rng_chance(&R, 1, 2) ? V->addlast(V, p) : V->addat(V, ins, p);
    if (!r) { judge("C10", "add", "adding a copy of the stored element %d at %d failed errno=%d", from, ins, errno); return; }
    m_ins(ins, want); vf_count("adds_through_a_stored_element_pointer", 1);
}
/* act: 0 get 1 set 2 pop 3 remove */
static void v_access(int how, int index, int act) {
    int pos = how == 0 ? 0 : how == 1 ? MN - 1 : (index < 0 ? MN + index : index);
    bool ok = pos >= 0 && pos < MN;
    bool newmem = act == 2 ? true : rng_chance(&R, 1, 2);
    static const char *AN[] = {"get", "set", "pop", "remove"}; static const char *HN[] = {"first", "last", "at"};
    vf_log("%s%s(%d) newmem=%d n=%d", AN[act], HN[how], index, newmem, MN);
    void *d = NULL; bool rb = false;
    unsigned char *eb = NULL;
    if (act == 1) { gen_elem(); eb = vf_xdup(EBUF, ES); }
    errno = 0;
    switch (act) {
    case 0: d = how == 0 ? V->getfirst(V, newmem) : how == 1 ? V->getlast(V, newmem) : V->getat(V, index, newmem); break;
    case 1: rb = how == 0 ? V->setfirst(V, eb) : how == 1 ? V->setlast(V, eb) : V->setat(V, index, eb); break;
    case 2: d = how == 0 ? V->popfirst(V) : how == 1 ? V->poplast(V) : V->popat(V, index); break;
    default: rb = how == 0 ? V->removefirst(V) : how == 1 ? V->removelast(V) : V->removeat(V, index); break;
    }
    int e = errno;
    if (eb) { memset(eb, 0xA5, ES); hm_free(eb); }
    bool got = (act == 1 || act == 3) ? rb : d != NULL;
    static const char *OKN[] = {"get_ok", "set_ok", "pop_ok", "remove_ok"};
    vf_count(ok ? OKN[act] : "access_refused_range", 1);
    if (got != ok) { judge("C10", "access", "%s%s(%d) on %d elements returned %d, model %d", AN[act], HN[how], index, MN, got, ok); if (d && newmem) free(d); return; }
    if (!ok) { int want = MN == 0 ? ENOENT : ERANGE; if (e != want) judge("C10", "access-errno", "refused access errno=%d expected %d", e, want); vf_count("refused_calls_verified_effect_free", 1); return; }
    if (act == 0 || act == 2) { if (memcmp(d, mel(pos), ES)) judge("C10", "access-wrong-element", "%s%s(%d) returned %s, model element %d is %s", AN[act], HN[how], index, vf_hex(d, ES), pos, vf_hex(mel(pos), ES));
                                if (newmem) free(d); }
    if (act == 1) memcpy(mel(pos), EBUF, ES);
    if (act >= 2) m_del(pos);
}
/* a second thread must be able to take the vector's lock: a call that returns with the lock held leaves the vector unusable for everybody else */
static void usable_by_others(const char *after) {
    if (!V->qmutex || abandon) return;
    if (!vf_lock_probe(V->qmutex)) judge("C10", "unusable-for-other-threads", "after %s a second thread can not take the lock of the (thread-safe) vector", after);
}
/* a capacity that can not be had (more bytes than the address space, or a byte count that does not fit size_t) must be refused without any effect */
static void v_resize_absurd(bool wraps) {
    size_t k = wraps ? SIZE_MAX / ES + 2 : SIZE_MAX / ES / 4, oldmax = V->max;
    if (wraps && ES < 2) return;
    vf_log("resize(%zu) [%s] n=%d max=%zu", k, wraps ? "byte count wraps" : "unallocatable", MN, V->max);
    errno = 0; bool r = V->resize(V, k);
    vf_count(wraps ? "resize_wrapping_byte_count" : "resize_unallocatable", 1);
    if (r) { judge("C10", "resize-absurd-accepted", "resize(%zu) of %zu-byte elements returned true (capacity now %zu)", k, (size_t)ES, V->max); return; }
    if (V->max != oldmax) judge("C10", "resize-refused-capacity", "refused resize changed the capacity from %zu to %zu", oldmax, V->max);
    usable_by_others("a refused resize");
}
static void v_resize(size_t k) {
    vf_log("resize(%zu) n=%d max=%zu", k, MN, V->max);
    bool r = V->resize(V, k);
    if (!r) { judge("C10", "resize-failed", "resize(%zu) returned false errno=%d", k, errno); return; }
    if ((size_t)MN > k) MN = (int)k;
    vf_count(k == 0 ? "resize_to_zero" : k < (size_t)MN + 1 ? "resize_at_or_below_n" : "resize_above_n", 1);
    if (V->max != k) judge("C10", "resize-capacity", "capacity %zu after resize(%zu)", V->max, k);
    usable_by_others(k ? "resize" : "resize(0)");
}
static void v_toarray(void) {
    size_t cnt = 999; errno = 0;
    vf_log("toarray n=%d", MN);
    void *a = V->toarray(V, optout(&cnt, (size_t)MN));
    if (MN == 0) { if (a) judge("C10", "toarray-empty", "toarray on empty returned data"); else if (cnt != 0 || errno != ENOENT) judge("C10", "toarray-empty", "size=%zu errno=%d", cnt, errno); }
    else if (!a) judge("C10", "toarray-null", "toarray returned NULL for %d elements", MN);
    else if (cnt != (size_t)MN || memcmp(a, M, (size_t)MN * ES)) judge("C10", "toarray-content", "toarray count %zu (model %d) or bytes differ", cnt, MN);
    free(a); vf_count("flattenings_audited", 1);
}
static void v_walk(bool newmem) {
    qvector_obj_t o; memset(&o, 0, sizeof o); int i = 0;
    vf_log("getnext-walk newmem=%d n=%d", newmem, MN);
    while (V->getnext(V, &o, newmem)) {
        if (i >= MN) { judge("C10", "walk-extra", "walk returned more than %d elements", MN); if (newmem) free(o.data); return; }
        bool bad = memcmp(o.data, mel(i), ES) != 0;
        if (newmem) free(o.data);
        if (bad) { judge("C10", "walk-order", "walk element %d differs", i); return; }
        i++;
    }
    if (i != MN) judge("C10", "walk-short", "walk returned %d of %d", i, MN); else vf_count("walks_audited", 1);
}

/* a cursor that outlives a change of the vector: the walk goes on with the element the cursor's position holds NOW, and ends when the position is at or past the end */
static void v_walk_across_change(void) {
    if (MN < 2) return;
    qvector_obj_t o; memset(&o, 0, sizeof o);
    int k = 1 + (int)rng_below(&R, (uint32_t)MN), i = 0;
    vf_log("getnext-walk of %d steps, then the vector changes, then the same cursor continues (n=%d)", k, MN);
    for (; i < k; i++) { if (!V->getnext(V, &o, false) || memcmp(o.data, mel(i), ES)) { judge("C10", "walk-order", "walk element %d differs", i); return; } }
    uint32_t how = rng_below(&R, 4);
    if (how == 0) { int m = 1 + (int)rng_below(&R, (uint32_t)MN); for (int j = 0; j < m && MN; j++) { V->removelast(V); m_del(MN - 1); } }
    else if (how == 1) { V->clear(V); MN = 0; }
    else if (how == 2) { size_t nm = rng_below(&R, (uint32_t)MN); if (nm == 0) nm = 1; if (!V->resize(V, nm)) { judge("C10", "resize-failed", "resize(%zu) failed", nm); return; } if ((size_t)MN > nm) MN = (int)nm; }
    else { V->removefirst(V); m_del(0); }
    for (int step = 0; step < 3; step++, i++) {
        bool r = V->getnext(V, &o, false), want = i < MN;
        if (r != want) { judge("C10", "walk-after-change", "cursor at position %d of a vector that now holds %d elements: getnext returned %d", i, MN, r); return; }
        if (!r) break;
        if (memcmp(o.data, mel(i), ES)) { judge("C10", "walk-after-change", "cursor at position %d after the change: wrong element", i); return; }
    }
    vf_count("walks_continued_across_a_change", 1);
}

/* ---- exhaustive sweep ---------------------------------------------------------- */
static void sweep(long caseno, int part, int nparts) {
    static const size_t ESZ[5] = {1, 3, 8, 17, 64};
    rng_seed(&R, VF.seed, (uint64_t)caseno);
    long cells = 0, k = 0;
    for (int n = 0; n <= 10; n++) for (int idx = -n - 2; idx <= n + 2; idx++) for (int ei = 0; ei < 5; ei++) for (int pol = 0; pol < 3; pol++)
    for (int ci = 0; ci < 4; ci++) for (int op = 0; op < 5; op++) {
        if ((k++ % nparts) != part) continue;
        size_t cap = ci == 0 ? 0 : ci == 1 ? 1 : ci == 2 ? (size_t)n : (size_t)n + 3;
        vec_new(cap, ESZ[ei], pol);
        vf_case_begin(caseno, "sweep n=%d index=%d elemsize=%zu policy=%s initcap=%zu op=%s", n, idx, ESZ[ei], POLN[pol], cap, (const char *[]){"addat", "getat", "setat", "popat", "removeat"}[op]);
        for (int i = 0; i < n; i++) v_add(1, 0);
        if (op == 0) v_add(2, idx); else v_access(2, idx, op - 1);
        if (!abandon) vec_check();
        vf_count("evaluations", 1); cells++;
        vf_distinct("distinct", (uint64_t)k);
        vec_free();
        if (P == 11) vf_san_poll();
    }
    vf_count("sweep_cells", cells);
    if (part == 0) vf_sample("index sweep: n=0..10 x index[-n-2,n+2] x elemsize{1,3,8,17,64} x policy{exact,linear,double} x initcap{0,1,n,n+3} x op{addat,getat,setat,popat,removeat}; this shard ran %ld cells", cells);
}

static void history(long caseno) {
    rng_seed(&R, VF.seed, (uint64_t)caseno);
    static const size_t ESZ[7] = {1, 2, 3, 8, 17, 33, 64};
    size_t es = ESZ[rng_below(&R, 7)]; int pol = (int)rng_below(&R, 3); size_t cap = rng_below(&R, 4) == 0 ? 0 : rng_below(&R, 12);
    int nops = VF.thorough ? 3000 : 1000;
    vf_case_begin(caseno, "random vector history elemsize=%zu policy=%s initcap=%zu ops=%d", es, POLN[pol], cap, nops);
    vec_new(cap, es, pol);
    for (int op = 0; op < nops && !abandon; op++) {
        uint32_t c = rng_below(&R, 100);
        int idx = (int)rng_below(&R, (uint32_t)(2 * MN + 5)) - MN - 2;
        if (rng_chance(&R, 1, 25)) { static const int X[] = {INT_MIN, INT_MIN + 1, INT_MAX, INT_MAX - 1, -1000000007, 1 << 30, -(1 << 30), 65536, -65536}; idx = X[rng_below(&R, 9)]; vf_count("extreme_indexes", 1); }   /* refused like any other out-of-range index */
        if (c < 10) v_add(0, 0);
        else if (c < 24) v_add(1, 0);
        else if (c < 35) v_add(2, MN > 2 && rng_chance(&R, 1, 2) ? 1 + (int)rng_below(&R, (uint32_t)MN - 1) : idx);
        else if (c < 38) v_add_own();
        else if (c < 48) v_access((int)rng_below(&R, 3), idx, 0);
        else if (c < 56) v_access((int)rng_below(&R, 3), idx, 1);
        else if (c < 64) v_access((int)rng_below(&R, 3), idx, 2);
        else if (c < 74) v_access((int)rng_below(&R, 3), MN > 2 && rng_chance(&R, 1, 2) ? 1 + (int)rng_below(&R, (uint32_t)MN - 2) : idx, 3);
        else if (c < 79) { if (rng_chance(&R, 1, 4)) v_walk_across_change(); else v_walk(rng_chance(&R, 1, 2)); }
        else if (c < 84) v_toarray();
        else if (c < 88) { vf_log("reverse"); V->reverse(V); for (int i = 0; i < MN / 2; i++) { unsigned char t[80]; memcpy(t, mel(i), ES); memcpy(mel(i), mel(MN - 1 - i), ES); memcpy(mel(MN - 1 - i), t, ES); } vf_count("reversals", 1); }
        else if (c < 97 && rng_chance(&R, 1, 8)) v_resize_absurd(rng_chance(&R, 1, 2));
        else if (c < 97) { uint32_t w = rng_below(&R, 6); v_resize(w == 0 ? 0 : w == 1 ? (size_t)MN : w == 2 && MN ? (size_t)rng_below(&R, (uint32_t)MN) : (size_t)MN + 1 + rng_below(&R, 8)); }
        else if (c < 98) { vf_log("clear"); V->clear(V); MN = 0; vf_count("clear", 1); }
        else { vf_log("invalid"); errno = 0; if (V->addlast(V, NULL) || errno != EINVAL) judge("C10", "einval", "addlast(NULL) accepted"); vf_count("invalid_arg_calls", 1); }
        vf_count("evaluations", 1);
        if (!abandon) vec_check();
        if (!abandon && (op % 23) == 0) usable_by_others("an ordinary operation");
        if ((op & 3) == 0) { uint64_t h = VF_H0 + es * 8 + (uint64_t)pol; for (int i = 0; i < MN && i < 24; i++) h = vf_hash(mel(i), ES < 2 ? ES : 2, h); vf_distinct("distinct", h ^ ((uint64_t)MN << 40) ^ ((uint64_t)V->max << 20)); }
        if (P == 11 && (op & 15) == 0 && vf_san_poll()) break;
    }
    vf_count(abandon ? "histories_abandoned" : "histories_completed", 1);
    if (caseno < 4 && !abandon) vf_sample("vector history #%ld: elemsize=%zu policy=%s initcap=%zu, %d ops, final length %d capacity %zu", caseno, es, POLN[pol], cap, nops, MN, V->max);
    vec_free();
    if (P == 11) vf_san_poll();
}

int main(int argc, char **argv) {
    vf_init(argc, argv, "h_vector");
    vf_errno_entry = 1; vf_op_budget_ms = VF.thorough ? 120000 : 10000;   /* stale errno on entry of every logged operation; a call that never returns is hang:operation */
    vf_errno_noise_every = 5;   /* every fifth case: successful allocations leave errno = ENOMEM behind (glibc does when brk fails) */
    P = atoi(VF.prop + 1);
    if (P != 10 && P != 11) { fprintf(stderr, "h_vector: unsupported property %s\n", VF.prop); return 2; }
    vf_ledger_enable(true);
    long ncases = vf_arg_long("cases", 320);
    if (VF.only_case < 0 || VF.only_case >= 900000) { long c = 900000 + VF.shard; if (VF.only_case < 0 || VF.only_case == c) sweep(c, VF.shard, VF.nshards); }
    for (long c = 0; c < ncases; c++) if (vf_mine(c)) history(c);
    return vf_finish() ? 1 : 0;
}
