/* ini_ref.h - independent port of the documented INI semantics of qconfig.c (variable rewriting and
 * @INCLUDE splice) with round/size limits.  Used ONLY to classify inputs: does the documented rewriting
 * itself reach a fixpoint?  The includer defines hm_alloc / hm_free / vf_xdup / vf_xrealloc. */
#ifndef INI_REF_H
#define INI_REF_H
#include <stdlib.h>
#include <string.h>
#include <stdio.h>
#include <stdbool.h>
/* ---- independent port of the documented INI rewriting semantics, with limits (classification only) --- */
typedef struct { char *name; char *val; } kv_t;
static kv_t *KV; static int NKV, KVCAP;
static const char *kv_get(const char *n) { for (int i = NKV - 1; i >= 0; i--) if (!strcmp(KV[i].name, n)) return KV[i].val; return NULL; }
static void kv_put(const char *n, const char *v) { if (NKV == KVCAP) { KVCAP = KVCAP ? KVCAP * 2 : 64; KV = vf_xrealloc(KV, sizeof(kv_t) * (size_t)KVCAP); } KV[NKV].name = vf_xdup(n, strlen(n) + 1); KV[NKV].val = vf_xdup(v, strlen(v) + 1); NKV++; }
static void kv_clear(void) { for (int i = 0; i < NKV; i++) { hm_free(KV[i].name); hm_free(KV[i].val); } NKV = 0; }
static void rtrim(char *s) { size_t a = 0, n = strlen(s); while (a < n && strchr(" \t\r\n", s[a])) a++; while (n > a && strchr(" \t\r\n", s[n - 1])) n--; memmove(s, s + a, n - a); s[n - a] = 0; }
static char *replace_all(const char *src, const char *tok, const char *word) {
    size_t tl = strlen(tok), wl = strlen(word), n = strlen(src), cap = n + 1, o = 0;
    for (const char *p = src; (p = strstr(p, tok)); p += tl) cap += wl;
    char *out = hm_alloc(cap + 1);
    for (size_t i = 0; i < n;) { if (!strncmp(src + i, tok, tl)) { memcpy(out + o, word, wl); o += wl; i += tl; } else out[o++] = src[i++]; }
    out[o] = 0; return out;
}
/* returns NULL when the rewriting does not reach a fixpoint within the limits */
static char *ref_parsestr(const char *str) {
    char *value = vf_xdup(str, strlen(str) + 1); int rounds = 0; bool loop; size_t limit = (1u << 17) + 2 * strlen(str);   /* growth limit relative to the text as written: a long line is not a cycle */
    do {
        loop = false;
        char *s, *e;
        for (s = value; *s; s++) {
            if (!(s[0] == '$' && s[1] == '{')) continue;
            int opened = 1;
            for (e = s + 2; *e; e++) {
                if (e[0] == '$' && e[1] == '{') { s = e - 1; break; }
                else if (*e == '{') opened++; else if (*e == '}') opened--; else continue;
                if (opened == 0) break;
            }
            if (*e == 0) break;
            if (opened > 0) continue;
            size_t varlen = (size_t)(e - s - 2);
            char *var = hm_alloc(varlen + 4); memcpy(var, s + 2, varlen); var[varlen] = 0;
            const char *nw = NULL;
            if (var[0] == '!') nw = "";
            else if (var[0] == '%') { nw = varlen > 1 ? getenv(var + 1) : ""; if (!nw) nw = ""; }
            else if (varlen == 0) nw = "";
            else { nw = kv_get(var); if (!nw) { hm_free(var); s = e; continue; } }
            char *tok = hm_alloc(varlen + 4); memcpy(tok, s, varlen + 3); tok[varlen + 3] = 0;
            char *nv = replace_all(value, tok, nw);
            hm_free(tok); hm_free(var); hm_free(value); value = nv; loop = true; break;
        }
        if (++rounds > 300 || strlen(value) > limit) { hm_free(value); return NULL; }
    } while (loop);
    return value;
}
/* true when the documented semantics itself never terminates on this document */
static bool ini_diverges(const char *text, char sep) {
    kv_clear();
    char *org = vf_xdup(text, strlen(text) + 1), *off = org, *section = NULL; bool div = false;
    while (*off && !div) {
        char *buf = off; while (*off != '\n' && *off) off++;
        if (*off) { *off = 0; off++; }
        char *line = vf_xdup(buf, strlen(buf) + 1); rtrim(line);
        if (line[0] == '#' || !line[0]) { hm_free(line); continue; }
        size_t ll = strlen(line);
        char *work = hm_alloc(ll + 8); strcpy(work, line);
        if (line[0] == '[' && line[ll - 1] == ']') {
            hm_free(section); section = vf_xdup(line + 1, ll); section[strlen(section) - 1] = 0; rtrim(section);
            if (!section[0]) { hm_free(section); section = NULL; hm_free(line); hm_free(work); continue; }
            snprintf(work, ll + 8, "%c%s", sep, section);
        }
        char *p = strchr(work, sep); char *name, *value;
        if (p) { *p = 0; name = vf_xdup(work, strlen(work) + 1); value = vf_xdup(p + 1, strlen(p + 1) + 1); } else { name = vf_xdup(work, strlen(work) + 1); value = vf_xdup("", 1); }
        rtrim(name); rtrim(value);
        char *full; if (section) { full = hm_alloc(strlen(section) + strlen(name) + 2); sprintf(full, "%s.%s", section, name); } else full = vf_xdup(name, strlen(name) + 1);
        char *nv = ref_parsestr(value);
        if (!nv) div = true; else { kv_put(full, nv); hm_free(nv); }
        hm_free(full); hm_free(name); hm_free(value); hm_free(line); hm_free(work);
    }
    hm_free(section); hm_free(org); kv_clear();
    return div;
}

/* port of the @INCLUDE splice of qconfig_parse_file (classification only): returns the spliced text, or NULL when
 * the library gives up before parsing (missing / over-long include) */
static char *ref_splice(const char *text, const char *filepath) {
    char *str = vf_xdup(text, strlen(text) + 1); char *strp = str; int guard = 0;
    char dir[700]; snprintf(dir, sizeof dir, "%s", filepath); { char *sl = strrchr(dir, '/'); if (sl) { if (sl == dir) sl[1] = 0; else *sl = 0; } else snprintf(dir, sizeof dir, "."); }
    while ((strp = strstr(strp, "@INCLUDE ")) != NULL) {
        if (!(strp == str || strp[-1] == '\n')) { strp += 9; continue; }
        if (++guard > 128) { hm_free(str); return NULL; }      /* the library's _MAX_INCLUDES */
        char *e = strp + 9; while (*e != '\n' && *e) e++;
        size_t len = (size_t)(e - (strp + 9));
        if (len >= 4096) { hm_free(str); return NULL; }
        char buf[4200]; memcpy(buf, strp + 9, len); buf[len] = 0; rtrim(buf);
        char full[5000];
        if (buf[0] == '/' || buf[0] == '\\') snprintf(full, sizeof full, "%s", buf);
        else { if (strlen(dir) + 1 + strlen(buf) >= 4096) { hm_free(str); return NULL; } snprintf(full, sizeof full, "%s/%s", dir, buf); }
        if (!buf[0]) { hm_free(str); return NULL; }
        FILE *f = fopen(full, "rb"); if (!f) { hm_free(str); return NULL; }
        size_t cap = 1 << 16, n = 0; char *inc = hm_alloc(cap + 1); size_t r;
        while ((r = fread(inc + n, 1, cap - n, f)) > 0) { n += r; if (n == cap) { cap *= 2; inc = vf_xrealloc(inc, cap + 1); } }
        fclose(f); inc[n] = 0;
        /* this directive only (the library replaced every occurrence of the directive text until fix "qconfig_parse_file: splice ... only") */
        size_t head = (size_t)(strp - str), tail = strlen(strp + 9 + len);
        char *ns = hm_alloc(head + n + tail + 1); memcpy(ns, str, head); memcpy(ns + head, inc, n); memcpy(ns + head + n, strp + 9 + len, tail + 1);
        hm_free(inc); hm_free(str); str = ns; strp = str + head;
        if (strlen(str) > (1u << 22)) { hm_free(str); return NULL; }
    }
    return str;
}


#endif
