/* wrap_popen.c - the INI parser executes ${!command} through popen(); never run commands from generated input */
#include <stdio.h>
volatile long vf_popen_calls;
FILE *__wrap_popen(const char *cmd, const char *type) { (void)cmd; (void)type; vf_popen_calls++; return NULL; }
