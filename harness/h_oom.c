/* h_oom.c - allocation-failure enumeration for C15 (all containers except the tree table,
 * which is enumerated over its shape corpus in h_tree.c, plus every constructor).
 *
 * Differential oracle.  For every (container kind, state of the corpus, operation, variant,
 * k, mode):   A, B := two identical containers in that state
 *             rB := op(B) with no fault                       (reference outcome)
 *             rA := op(A) with the k-th allocation inside the call failing
 *                   (mode single: only that one; mode all: that and every later one)
 *   rA reports failure  => digest(A) == digest before the call
 *   rA reports success  => rA == rB and digest(A) == digest(B)
 * then in both cases: structural invariants of A, an identical battery of normal operations
 * on A and on its reference twin gives identical digests, nothing is live in the allocation
 * ledger after free(), and ASan/UBSan stay silent (the run is an asan build).
 * k runs from 1 until no failure is delivered any more (k > number of allocations of the call).
 */
#define _GNU_SOURCE
#include <stdlib.h>
#include <string.h>
#include <errno.h>
#include <pthread.h>
#include <stdint.h>
#include <unistd.h>
#include <fcntl.h>
#include <sys/mman.h>
#include "qlibc.h"
#include "vfc.h"

enum { K_HASH, K_LISTTBL, K_LIST, K_QUEUE, K_STACK, K_GROW, K_VECTOR, K_HASHARR, NKINDS };
static const char *KNAME[NKINDS] = {"qhashtbl", "qlisttbl", "qlist", "qqueue", "qstack", "qgrow", "qvector", "qhasharr"};

typedef struct {
    int kind, n, cfg;
    qhashtbl_t *hash; qlisttbl_t *ltbl; qlist_t *list; qqueue_t *queue; qstack_t *stack; qgrow_t *grow; qvector_t *vec; qhasharr_t *harr;
    void *mem; size_t memsize;
} ctx_t;

static char KB[32];
static const char *key(int i) { snprintf(KB, sizeof KB, "k%03d", i); return KB; }
static char EB[24];
static const char *elem(int i) { snprintf(EB, sizeof EB, "e%06d", i % 1000000); return EB; }   /* 7 chars + NUL = 8 bytes */

static qlist_t *inner(ctx_t *c) { return c->kind == K_LIST ? c->list : c->kind == K_QUEUE ? c->queue->list : c->kind == K_STACK ? c->stack->list : c->grow->list; }

/* "later operations behave normally" includes other threads: a lock the failed call left held blocks them for ever.
 * The container's mutex is recursive, so only a second thread can see it. */
static void *ctx_mutex(ctx_t *c) {
    switch (c->kind) { case K_HASH: return c->hash->qmutex; case K_LISTTBL: return c->ltbl->qmutex; case K_LIST: return c->list->qmutex; case K_QUEUE: return c->queue->list->qmutex;
    case K_STACK: return c->stack->list->qmutex; case K_GROW: return c->grow->list->qmutex; case K_VECTOR: return c->vec->qmutex; default: return NULL; }
}
static void *probe_main(void *m) { int r = pthread_mutex_trylock(m); if (r == 0) pthread_mutex_unlock(m); return (void *)(intptr_t)r; }
static bool lock_left_held(ctx_t *c) {
    void *m = ctx_mutex(c); if (!m) return false;
    pthread_t t; void *r = NULL; if (pthread_create(&t, NULL, probe_main, m)) return false; pthread_join(t, &r);
    vf_count("lock_probes_from_a_second_thread", 1);
    return (intptr_t)r != 0;
}

static bool build(ctx_t *c, int kind, int n, int cfg) {
    memset(c, 0, sizeof *c); c->kind = kind; c->n = n; c->cfg = cfg;
    int ts = cfg & 1;   /* thread-safe flag: the mutex object is allocated as well */
    switch (kind) {
    case K_HASH: c->hash = qhashtbl((cfg & 2) ? 1 : 7, ts ? QHASHTBL_THREADSAFE : 0); if (!c->hash) return false;
        for (int i = 0; i < n; i++) if (!c->hash->putstr(c->hash, key(i), elem(i))) return false; break;
    case K_LISTTBL: c->ltbl = qlisttbl((ts ? QLISTTBL_THREADSAFE : 0) | ((cfg & 2) ? QLISTTBL_UNIQUE : 0) | ((cfg & 4) ? QLISTTBL_LOOKUPFORWARD : 0) | ((n & 1) ? QLISTTBL_INSERTTOP : 0));   /* odd states: insert-at-top tables */ if (!c->ltbl) return false;
        for (int i = 0; i < n; i++) if (!c->ltbl->putstr(c->ltbl, key(i % 5), elem(i))) return false; break;
    case K_LIST: c->list = qlist(ts ? QLIST_THREADSAFE : 0); if (!c->list) return false;
        for (int i = 0; i < n; i++) if (!c->list->addlast(c->list, elem(i), 8)) return false; break;
    case K_QUEUE: c->queue = qqueue(ts ? QQUEUE_THREADSAFE : 0); if (!c->queue) return false;
        for (int i = 0; i < n; i++) if (!c->queue->push(c->queue, elem(i), 8)) return false; break;
    case K_STACK: c->stack = qstack(ts ? QSTACK_THREADSAFE : 0); if (!c->stack) return false;
        for (int i = 0; i < n; i++) if (!c->stack->push(c->stack, elem(i), 8)) return false; break;
    case K_GROW: c->grow = qgrow(ts ? QGROW_THREADSAFE : 0); if (!c->grow) return false;
        for (int i = 0; i < n; i++) if (!c->grow->add(c->grow, elem(i), 8)) return false; break;
    case K_VECTOR: c->vec = qvector((cfg & 2) ? (size_t)n : 0, 8, (ts ? QVECTOR_THREADSAFE : 0) | ((cfg & 4) ? QVECTOR_RESIZE_DOUBLE : QVECTOR_RESIZE_EXACT)); if (!c->vec) return false;
        for (int i = 0; i < n; i++) if (!c->vec->addlast(c->vec, elem(i))) return false; break;
    case K_HASHARR: c->memsize = qhasharr_calculate_memsize(2 * n + 6); c->mem = hm_alloc(c->memsize); c->harr = qhasharr(c->mem, c->memsize); if (!c->harr) return false;
        for (int i = 0; i < n; i++) if (!c->harr->putstr(c->harr, key(i), (i & 1) ? elem(i) : "a-value-that-needs-more-than-one-slot-because-it-is-longer-than-32-bytes")) return false; break;
    }
    return true;
}
static void destroy(ctx_t *c) {
    switch (c->kind) {
    case K_HASH: if (c->hash) c->hash->free(c->hash); break; case K_LISTTBL: if (c->ltbl) c->ltbl->free(c->ltbl); break; case K_LIST: if (c->list) c->list->free(c->list); break;
    case K_QUEUE: if (c->queue) c->queue->free(c->queue); break; case K_STACK: if (c->stack) c->stack->free(c->stack); break; case K_GROW: if (c->grow) c->grow->free(c->grow); break;
    case K_VECTOR: if (c->vec) c->vec->free(c->vec); break; case K_HASHARR: if (c->harr) c->harr->free(c->harr); hm_free(c->mem); break;
    }
}

/* ---- digest of the observable state through public fields (no allocation) and invariants ---- */
static const char *structure_problem;
static uint64_t digest(ctx_t *c) {
    uint64_t h = VF_H0; structure_problem = NULL;
    switch (c->kind) {
    case K_HASH: { qhashtbl_t *t = c->hash; size_t cnt = 0; h = vf_hash(&t->num, sizeof t->num, h);
        for (size_t s = 0; s < t->range; s++) { for (qhashtbl_obj_t *o = t->slots[s]; o; o = o->next) { if (!o->name || !o->data) { structure_problem = "node with NULL name/data"; return h; }
            h = vf_hash(o->name, strlen(o->name), h); h = vf_hash(o->data, o->size, h); if (++cnt > t->num + 1) { structure_problem = "more nodes than num"; return h; } } h = vf_hash("|", 1, h); }
        if (cnt != t->num) structure_problem = "num != node count"; break; }
    case K_LISTTBL: { qlisttbl_t *t = c->ltbl; size_t cnt = 0; h = vf_hash(&t->num, sizeof t->num, h); qlisttbl_obj_t *prev = NULL;
        for (qlisttbl_obj_t *o = t->first; o; prev = o, o = o->next) { if (!o->name || !o->data) { structure_problem = "entry with NULL name/data"; return h; } if (o->prev != prev) { structure_problem = "prev link broken"; return h; }
            h = vf_hash(o->name, strlen(o->name), h); h = vf_hash(o->data, o->size, h); if (++cnt > t->num + 1) { structure_problem = "more entries than num"; return h; } }
        if (t->last != prev) structure_problem = "last pointer wrong"; else if (cnt != t->num) structure_problem = "num != entry count"; break; }
    case K_LIST: case K_QUEUE: case K_STACK: case K_GROW: { qlist_t *l = inner(c); size_t cnt = 0, sum = 0; h = vf_hash(&l->num, sizeof l->num, h); h = vf_hash(&l->datasum, sizeof l->datasum, h); h = vf_hash(&l->max, sizeof l->max, h); qlist_obj_t *prev = NULL;
        for (qlist_obj_t *o = l->first; o; prev = o, o = o->next) { if (!o->data) { structure_problem = "element with NULL data"; return h; } if (o->prev != prev) { structure_problem = "prev link broken"; return h; }
            h = vf_hash(o->data, o->size, h); sum += o->size; if (++cnt > l->num + 1) { structure_problem = "more elements than num"; return h; } }
        if (l->last != prev) structure_problem = "last pointer wrong"; else if (cnt != l->num) structure_problem = "num != element count"; else if (sum != l->datasum) structure_problem = "datasum wrong"; break; }
    case K_VECTOR: { qvector_t *v = c->vec; h = vf_hash(&v->num, sizeof v->num, h); h = vf_hash(&v->objsize, sizeof v->objsize, h);
        if (v->num > v->max) { structure_problem = "num > max"; return h; } if ((v->data != NULL) != (v->max > 0)) { structure_problem = "data pointer vs capacity"; return h; }
        if (v->num) h = vf_hash(v->data, v->num * v->objsize, h); break; }
    case K_HASHARR: h = vf_hash(c->mem, c->memsize, h); break;
    }
    return h;
}

/* ---- operations ------------------------------------------------------------------------------ */
typedef struct { bool ok; uint64_t val; int err; } res_t;   /* ok: the call reported success; val: digest of what it returned */
static uint64_t take(void *p, size_t n) { uint64_t h = p ? vf_hash(p, n, VF_H0) : 0; free(p); return h; }
typedef struct { const char *name; int nvar; res_t (*call)(ctx_t *, int v); } op_t;
#define RES(okexpr, valexpr) do { res_t r_; errno = 0; r_.val = 0; r_.ok = (okexpr); r_.err = errno; r_.val ^= (valexpr); return r_; } while (0)
static const char *kv(ctx_t *c, int v) { return v == 0 ? key(c->n ? c->n / 2 : 999) : key(999); }   /* present / absent */

/* a walk that is resumed after a reported allocation failure (same cursor, no more injected failures) must deliver the same sequence as an undisturbed walk */
#define RESUME(retry, tries) ((retry) && errno == ENOMEM && (tries)++ < 3 ? (vf_fail_at = 0, vf_fail_from = 0, vf_count("walks_resumed_after_a_reported_allocation_failure", 1), true) : false)
/* hash table */
static res_t h_put(ctx_t *c, int v) { RES(c->hash->put(c->hash, kv(c, v), "new-value", 10), 0); }
static res_t h_putstr(ctx_t *c, int v) { RES(c->hash->putstr(c->hash, kv(c, v), "new-str"), 0); }
static res_t h_putstrf(ctx_t *c, int v) { RES(c->hash->putstrf(c->hash, kv(c, v), "%d-%s", 42, "fmt"), 0); }
static res_t h_putint(ctx_t *c, int v) { RES(c->hash->putint(c->hash, kv(c, v), -77), 0); }
static res_t h_get(ctx_t *c, int v) { size_t sz = 0; void *d; res_t r; errno = 0; d = c->hash->get(c->hash, kv(c, v), &sz, true); r.err = errno; r.ok = d != NULL || r.err == ENOENT; r.val = take(d, sz); return r; }
static res_t h_getstr(ctx_t *c, int v) { char *d; res_t r; errno = 0; d = c->hash->getstr(c->hash, kv(c, v), true); r.err = errno; r.ok = d != NULL || r.err == ENOENT; r.val = take(d, d ? strlen(d) + 1 : 0); return r; }
static res_t h_getint(ctx_t *c, int v) { res_t r; errno = 0; int64_t x = c->hash->getint(c->hash, kv(c, v)); r.err = errno; r.ok = r.err != ENOMEM; r.val = (uint64_t)x; return r; }
static res_t h_walk(ctx_t *c, int v) { qhashtbl_obj_t o; memset(&o, 0, sizeof o); res_t r; r.val = VF_H0; r.ok = true; int g = 0, tries = 0;
    while (1) { errno = 0; if (!c->hash->getnext(c->hash, &o, true)) { if (RESUME(v == 1, tries)) continue; r.err = errno; r.ok = r.err != ENOMEM; break; } r.val = vf_hash(o.name, strlen(o.name), r.val); r.val = vf_hash(o.data, o.size, r.val); free(o.name); free(o.data); if (++g > 200) break; } return r; }
static op_t OPS_HASH[] = {{"put", 2, h_put}, {"putstr", 2, h_putstr}, {"putstrf", 2, h_putstrf}, {"putint", 2, h_putint}, {"get(newmem)", 2, h_get}, {"getstr(newmem)", 2, h_getstr}, {"getint", 2, h_getint}, {"getnext(newmem)", 2, h_walk}, {NULL, 0, NULL}};

/* list table */
static res_t lt_put(ctx_t *c, int v) { RES(c->ltbl->put(c->ltbl, v ? key(999) : key(0), "new-value", 10), 0); }
static res_t lt_putstr(ctx_t *c, int v) { RES(c->ltbl->putstr(c->ltbl, v ? key(999) : key(0), "new-str"), 0); }
static res_t lt_putstrf(ctx_t *c, int v) { RES(c->ltbl->putstrf(c->ltbl, v ? key(999) : key(0), "%d-%s", 42, "fmt"), 0); }
static res_t lt_putint(ctx_t *c, int v) { RES(c->ltbl->putint(c->ltbl, v ? key(999) : key(0), -77), 0); }
static res_t lt_get(ctx_t *c, int v) { size_t sz = 0; void *d; res_t r; errno = 0; d = c->ltbl->get(c->ltbl, v ? key(999) : key(0), &sz, true); r.err = errno; r.ok = d != NULL || r.err == ENOENT; r.val = take(d, sz); return r; }
static res_t lt_getstr(ctx_t *c, int v) { char *d; res_t r; errno = 0; d = c->ltbl->getstr(c->ltbl, v ? key(999) : key(0), true); r.err = errno; r.ok = d != NULL || r.err == ENOENT; r.val = take(d, d ? strlen(d) + 1 : 0); return r; }
static res_t lt_getint(ctx_t *c, int v) { res_t r; errno = 0; int64_t x = c->ltbl->getint(c->ltbl, v ? key(999) : key(0)); r.err = errno; r.ok = r.err != ENOMEM; r.val = (uint64_t)x; return r; }
static res_t lt_getmulti(ctx_t *c, int v) { size_t n = 0; res_t r; errno = 0; qlisttbl_data_t *o = c->ltbl->getmulti(c->ltbl, (v & 1) ? key(999) : key(0), v < 2, &n); r.err = errno; r.val = VF_H0 + n;
    r.ok = r.err != ENOMEM; if (o) { for (size_t i = 0; i < n; i++) r.val = vf_hash(o[i].data, o[i].size, r.val); c->ltbl->freemulti(o); } return r; }
static res_t lt_walk(ctx_t *c, int v) { qlisttbl_obj_t o; memset(&o, 0, sizeof o); res_t r; r.val = VF_H0; r.ok = true; int g = 0, tries = 0; const char *nm = (v & 1) ? key(0) : NULL;
    while (1) { errno = 0; if (!c->ltbl->getnext(c->ltbl, &o, nm, true)) { if (RESUME(v >= 2, tries)) continue; r.err = errno; r.ok = r.err != ENOMEM; break; } r.val = vf_hash(o.name, strlen(o.name), r.val); r.val = vf_hash(o.data, o.size, r.val); free(o.name); free(o.data); if (++g > 200) break; } return r; }
static res_t lt_sort(ctx_t *c, int v) { (void)v; res_t r; errno = 0; c->ltbl->sort(c->ltbl); r.err = errno; r.ok = r.err != ENOMEM; r.val = 0; return r; }
static char LOADPATH[64], SAVEPATH[64];
static res_t lt_load(ctx_t *c, int v) { res_t r; errno = 0; ssize_t n = c->ltbl->load(c->ltbl, LOADPATH, '=', v == 0); r.err = errno; r.ok = n >= 0; r.val = (uint64_t)n; return r; }
static res_t lt_save(ctx_t *c, int v) { res_t r; errno = 0; bool b = c->ltbl->save(c->ltbl, SAVEPATH, '=', v == 0); r.err = errno; r.ok = b; r.val = 0;
    if (b) { r.val = VF_H0;     /* what a later load() would see: the lines that are not comments (the header comment carries a time stamp); read with harness-owned memory */
        int fd = open(SAVEPATH, O_RDONLY); char *t = hm_alloc(65536); ssize_t got = fd >= 0 ? read(fd, t, 65535) : -1; if (fd >= 0) close(fd); if (got < 0) got = 0; t[got] = 0;
        for (char *l = t; *l; ) { char *e = strchr(l, '\n'); size_t n = e ? (size_t)(e - l) : strlen(l); if (n && l[0] != '#') r.val = vf_hash(l, n, r.val); l += n + (e ? 1 : 0); } hm_free(t); } return r; }
static op_t OPS_LISTTBL[] = {{"put", 2, lt_put}, {"putstr", 2, lt_putstr}, {"putstrf", 2, lt_putstrf}, {"putint", 2, lt_putint}, {"get(newmem)", 2, lt_get}, {"getstr(newmem)", 2, lt_getstr}, {"getint", 2, lt_getint},
    {"getmulti", 4, lt_getmulti}, {"getnext(newmem)", 4, lt_walk}, {"sort", 1, lt_sort}, {"load", 2, lt_load}, {"save", 2, lt_save}, {NULL, 0, NULL}};

/* list */
static int pos_of(ctx_t *c, int v) { return v == 0 ? 0 : v == 1 ? c->n / 2 : c->n ? c->n - 1 : 0; }
static res_t l_addfirst(ctx_t *c, int v) { (void)v; RES(c->list->addfirst(c->list, "newelem", 8), 0); }
static res_t l_addlast(ctx_t *c, int v) { (void)v; RES(c->list->addlast(c->list, "newelem", 8), 0); }
static res_t l_addat(ctx_t *c, int v) { RES(c->list->addat(c->list, pos_of(c, v), "newelem", 8), 0); }
static res_t l_getat(ctx_t *c, int v) { size_t sz = 0; void *d; res_t r; errno = 0; d = c->list->getat(c->list, pos_of(c, v), &sz, true); r.err = errno; r.ok = d != NULL || r.err == ERANGE; r.val = take(d, sz); return r; }
static res_t l_getfirst(ctx_t *c, int v) { (void)v; size_t sz = 0; void *d; res_t r; errno = 0; d = c->list->getfirst(c->list, &sz, true); r.err = errno; r.ok = d != NULL || r.err == ERANGE; r.val = take(d, sz); return r; }
static res_t l_getlast(ctx_t *c, int v) { (void)v; size_t sz = 0; void *d; res_t r; errno = 0; d = c->list->getlast(c->list, &sz, true); r.err = errno; r.ok = d != NULL || r.err == ERANGE; r.val = take(d, sz); return r; }
static res_t l_popat(ctx_t *c, int v) { size_t sz = 0; void *d; res_t r; errno = 0; d = c->list->popat(c->list, pos_of(c, v), &sz); r.err = errno; r.ok = d != NULL || r.err == ERANGE; r.val = take(d, sz); return r; }
static res_t l_popfirst(ctx_t *c, int v) { (void)v; size_t sz = 0; void *d; res_t r; errno = 0; d = c->list->popfirst(c->list, &sz); r.err = errno; r.ok = d != NULL || r.err == ERANGE; r.val = take(d, sz); return r; }
static res_t l_poplast(ctx_t *c, int v) { (void)v; size_t sz = 0; void *d; res_t r; errno = 0; d = c->list->poplast(c->list, &sz); r.err = errno; r.ok = d != NULL || r.err == ERANGE; r.val = take(d, sz); return r; }
static res_t l_walk(ctx_t *c, int v) { qlist_obj_t o; memset(&o, 0, sizeof o); res_t r; r.val = VF_H0; r.ok = true; r.err = 0; int g = 0, cnt = 0, tries = 0;
    while (1) { errno = 0; if (!c->list->getnext(c->list, &o, true)) { if (RESUME(v == 1, tries)) continue; r.err = errno; break; } r.val = vf_hash(o.data, o.size, r.val); free(o.data); cnt++; if (++g > 200) break; }
    r.ok = cnt == (int)c->list->num; return r; }   /* getnext signals ENOMEM only by ending early */
static res_t l_toarray(ctx_t *c, int v) { (void)v; size_t sz = 0; void *d; res_t r; errno = 0; d = c->list->toarray(c->list, &sz); r.err = errno; r.ok = d != NULL || r.err == ENOENT; r.val = take(d, sz); return r; }
static res_t l_tostring(ctx_t *c, int v) { (void)v; char *d; res_t r; errno = 0; d = c->list->tostring(c->list); r.err = errno; r.ok = d != NULL || r.err == ENOENT; r.val = take(d, d ? strlen(d) + 1 : 0); return r; }
static op_t OPS_LIST[] = {{"addfirst", 1, l_addfirst}, {"addlast", 1, l_addlast}, {"addat", 3, l_addat}, {"getat(newmem)", 3, l_getat}, {"getfirst(newmem)", 1, l_getfirst}, {"getlast(newmem)", 1, l_getlast},
    {"popat", 3, l_popat}, {"popfirst", 1, l_popfirst}, {"poplast", 1, l_poplast}, {"getnext(newmem)", 2, l_walk}, {"toarray", 1, l_toarray}, {"tostring", 1, l_tostring}, {NULL, 0, NULL}};

/* queue / stack */
#define QSOPS(P, FIELD, TAB) \
static res_t P##_push(ctx_t *c, int v) { (void)v; RES(c->FIELD->push(c->FIELD, "newelem", 8), 0); } \
static res_t P##_pushstr(ctx_t *c, int v) { (void)v; RES(c->FIELD->pushstr(c->FIELD, "newelem"), 0); } \
static res_t P##_pushint(ctx_t *c, int v) { (void)v; RES(c->FIELD->pushint(c->FIELD, 123456789), 0); } \
static res_t P##_pop(ctx_t *c, int v) { (void)v; size_t sz = 0; void *d; res_t r; errno = 0; d = c->FIELD->pop(c->FIELD, &sz); r.err = errno; r.ok = d != NULL || r.err == ERANGE; r.val = take(d, sz); return r; } \
static res_t P##_popstr(ctx_t *c, int v) { (void)v; char *d; res_t r; errno = 0; d = c->FIELD->popstr(c->FIELD); r.err = errno; r.ok = d != NULL || r.err == ERANGE; r.val = take(d, d ? strlen(d) + 1 : 0); return r; } \
static res_t P##_popint(ctx_t *c, int v) { (void)v; res_t r; errno = 0; int64_t x = c->FIELD->popint(c->FIELD); r.err = errno; r.ok = r.err != ENOMEM; r.val = (uint64_t)x; return r; } \
static res_t P##_popat(ctx_t *c, int v) { size_t sz = 0; void *d; res_t r; errno = 0; d = c->FIELD->popat(c->FIELD, pos_of(c, v), &sz); r.err = errno; r.ok = d != NULL || r.err == ERANGE; r.val = take(d, sz); return r; } \
static res_t P##_get(ctx_t *c, int v) { (void)v; size_t sz = 0; void *d; res_t r; errno = 0; d = c->FIELD->get(c->FIELD, &sz, true); r.err = errno; r.ok = d != NULL || r.err == ERANGE; r.val = take(d, sz); return r; } \
static res_t P##_getstr(ctx_t *c, int v) { (void)v; char *d; res_t r; errno = 0; d = c->FIELD->getstr(c->FIELD); r.err = errno; r.ok = d != NULL || r.err == ERANGE; r.val = take(d, d ? strlen(d) + 1 : 0); return r; } \
static res_t P##_getint(ctx_t *c, int v) { (void)v; res_t r; errno = 0; int64_t x = c->FIELD->getint(c->FIELD); r.err = errno; r.ok = r.err != ENOMEM; r.val = (uint64_t)x; return r; } \
static res_t P##_getat(ctx_t *c, int v) { size_t sz = 0; void *d; res_t r; errno = 0; d = c->FIELD->getat(c->FIELD, pos_of(c, v), &sz, true); r.err = errno; r.ok = d != NULL || r.err == ERANGE; r.val = take(d, sz); return r; } \
static op_t TAB[] = {{"push", 1, P##_push}, {"pushstr", 1, P##_pushstr}, {"pushint", 1, P##_pushint}, {"pop", 1, P##_pop}, {"popstr", 1, P##_popstr}, {"popint", 1, P##_popint}, {"popat", 3, P##_popat}, \
    {"get(newmem)", 1, P##_get}, {"getstr", 1, P##_getstr}, {"getint", 1, P##_getint}, {"getat(newmem)", 3, P##_getat}, {NULL, 0, NULL}};
QSOPS(q, queue, OPS_QUEUE)
QSOPS(s, stack, OPS_STACK)

/* grow */
static res_t g_add(ctx_t *c, int v) { (void)v; RES(c->grow->add(c->grow, "newelem", 8), 0); }
static res_t g_addstr(ctx_t *c, int v) { (void)v; RES(c->grow->addstr(c->grow, "newelem"), 0); }
static res_t g_addstrf(ctx_t *c, int v) { (void)v; RES(c->grow->addstrf(c->grow, "%d-%s", 7, "fmt"), 0); }
static res_t g_toarray(ctx_t *c, int v) { (void)v; size_t sz = 0; void *d; res_t r; errno = 0; d = c->grow->toarray(c->grow, &sz); r.err = errno; r.ok = d != NULL || r.err == ENOENT; r.val = take(d, sz); return r; }
static res_t g_tostring(ctx_t *c, int v) { (void)v; char *d; res_t r; errno = 0; d = c->grow->tostring(c->grow); r.err = errno; r.ok = d != NULL || r.err == ENOENT; r.val = take(d, d ? strlen(d) + 1 : 0); return r; }
static op_t OPS_GROW[] = {{"add", 1, g_add}, {"addstr", 1, g_addstr}, {"addstrf", 1, g_addstrf}, {"toarray", 1, g_toarray}, {"tostring", 1, g_tostring}, {NULL, 0, NULL}};

/* vector */
static res_t v_addfirst(ctx_t *c, int v) { (void)v; RES(c->vec->addfirst(c->vec, "newelem"), 0); }
static res_t v_addlast(ctx_t *c, int v) { (void)v; RES(c->vec->addlast(c->vec, "newelem"), 0); }
static res_t v_addat(ctx_t *c, int v) { RES(c->vec->addat(c->vec, pos_of(c, v), "newelem"), 0); }
static res_t v_getat(ctx_t *c, int v) { void *d; res_t r; errno = 0; d = c->vec->getat(c->vec, pos_of(c, v), true); r.err = errno; r.ok = d != NULL || r.err == ENOENT || r.err == ERANGE; r.val = take(d, 8); return r; }
static res_t v_getfirst(ctx_t *c, int v) { (void)v; void *d; res_t r; errno = 0; d = c->vec->getfirst(c->vec, true); r.err = errno; r.ok = d != NULL || r.err == ENOENT; r.val = take(d, 8); return r; }
static res_t v_getlast(ctx_t *c, int v) { (void)v; void *d; res_t r; errno = 0; d = c->vec->getlast(c->vec, true); r.err = errno; r.ok = d != NULL || r.err == ENOENT; r.val = take(d, 8); return r; }
static res_t v_popat(ctx_t *c, int v) { void *d; res_t r; errno = 0; d = c->vec->popat(c->vec, pos_of(c, v)); r.err = errno; r.ok = d != NULL || r.err == ENOENT || r.err == ERANGE; r.val = take(d, 8); return r; }
static res_t v_popfirst(ctx_t *c, int v) { (void)v; void *d; res_t r; errno = 0; d = c->vec->popfirst(c->vec); r.err = errno; r.ok = d != NULL || r.err == ENOENT; r.val = take(d, 8); return r; }
static res_t v_poplast(ctx_t *c, int v) { (void)v; void *d; res_t r; errno = 0; d = c->vec->poplast(c->vec); r.err = errno; r.ok = d != NULL || r.err == ENOENT; r.val = take(d, 8); return r; }
static res_t v_resize(ctx_t *c, int v) { RES(c->vec->resize(c->vec, v == 0 ? (size_t)c->n + 1 : v == 1 ? (size_t)c->n + 20 : (size_t)(c->n / 2 + 1)), 0); }
static res_t v_reverse(ctx_t *c, int v) { (void)v; res_t r; errno = 0; c->vec->reverse(c->vec); r.err = errno; r.ok = r.err != ENOMEM; r.val = 0; return r; }
static res_t v_toarray(ctx_t *c, int v) { (void)v; size_t cnt = 0; void *d; res_t r; errno = 0; d = c->vec->toarray(c->vec, &cnt); r.err = errno; r.ok = d != NULL || r.err == ENOENT; r.val = take(d, cnt * 8) + cnt; return r; }
static res_t v_walk(ctx_t *c, int v) { qvector_obj_t o; memset(&o, 0, sizeof o); res_t r; r.val = VF_H0; r.ok = true; int g = 0, tries = 0;
    while (1) { errno = 0; if (!c->vec->getnext(c->vec, &o, true)) { if (RESUME(v == 1, tries)) continue; r.err = errno; r.ok = r.err != ENOMEM; break; } r.val = vf_hash(o.data, 8, r.val); free(o.data); if (++g > 200) break; } return r; }
static op_t OPS_VECTOR[] = {{"addfirst", 1, v_addfirst}, {"addlast", 1, v_addlast}, {"addat", 3, v_addat}, {"getat(newmem)", 3, v_getat}, {"getfirst(newmem)", 1, v_getfirst}, {"getlast(newmem)", 1, v_getlast},
    {"popat", 3, v_popat}, {"popfirst", 1, v_popfirst}, {"poplast", 1, v_poplast}, {"resize", 3, v_resize}, {"reverse", 1, v_reverse}, {"toarray", 1, v_toarray}, {"getnext(newmem)", 2, v_walk}, {NULL, 0, NULL}};

/* static hash table */
static res_t a_get(ctx_t *c, int v) { size_t sz = 0; void *d; res_t r; errno = 0; d = c->harr->get(c->harr, kv(c, v), &sz); r.err = errno; r.ok = d != NULL || r.err == ENOENT; r.val = take(d, sz); return r; }
static res_t a_getstr(ctx_t *c, int v) { char *d; res_t r; errno = 0; d = c->harr->getstr(c->harr, kv(c, v)); r.err = errno; r.ok = d != NULL || r.err == ENOENT; r.val = take(d, d ? strlen(d) + 1 : 0); return r; }
static res_t a_putstrf(ctx_t *c, int v) { RES(c->harr->putstrf(c->harr, kv(c, v), "%d-%s", 42, "fmt"), 0); }
static res_t a_walk(ctx_t *c, int v) { qhasharr_obj_t o; int idx = 0; res_t r; r.val = VF_H0; r.ok = true; int g = 0, tries = 0;
    while (1) { errno = 0; if (!c->harr->getnext(c->harr, &o, &idx)) { if (RESUME(v == 1, tries)) continue; r.err = errno; r.ok = r.err != ENOMEM; break; } r.val = vf_hash(o.name, o.namesize, r.val); r.val = vf_hash(o.data, o.datasize, r.val); free(o.name); free(o.data); if (++g > 200) break; } return r; }
static op_t OPS_HASHARR[] = {{"get", 2, a_get}, {"getstr", 2, a_getstr}, {"putstrf", 2, a_putstrf}, {"getnext", 2, a_walk}, {NULL, 0, NULL}};

static op_t *OPTAB[NKINDS] = {OPS_HASH, OPS_LISTTBL, OPS_LIST, OPS_QUEUE, OPS_STACK, OPS_GROW, OPS_VECTOR, OPS_HASHARR};

/* battery of normal operations applied identically to the injected container and to its reference twin */
static uint64_t battery(ctx_t *c) {
    uint64_t h = VF_H0;
    /* index-addressed operations (getat / popat / addat / removeat / setat) run at every position variant, the middle one first: whatever a
     * container remembers between calls about positions (a cursor, a cached node) must not have been left stale by the failed call */
    for (op_t *o = OPTAB[c->kind]; o->name; o++) { bool indexed = strstr(o->name, "at") != NULL && o->nvar == 3;
        for (int i = 0; i < (indexed ? 3 : 1); i++) { int v = indexed ? (int[]){1, 2, 0}[i] : 0; res_t r = o->call(c, v); h = vf_hash(&r.ok, sizeof r.ok, h) ^ (r.val * (uint64_t)(2 * i + 1)); } }
    return h ^ digest(c);
}
/* non-mutating, non-allocating reads issued before the call under test (and on every twin alike): the call starts from a container that has
 * been used, with whatever it caches about the last access in place */
static void warm(ctx_t *c) {
    size_t sz;
    switch (c->kind) {
    case K_LIST: case K_QUEUE: case K_STACK: case K_GROW: { qlist_t *l = inner(c); if (l->num) { l->getat(l, (int)(l->num / 2), &sz, false); if (l->num > 3) l->getat(l, (int)(l->num / 2) + 1, &sz, false); } break; }
    case K_VECTOR: if (c->vec->num) c->vec->getat(c->vec, (int)(c->vec->num / 2), false); break;
    case K_HASH: c->hash->get(c->hash, key(c->n / 2), &sz, false); break;
    case K_LISTTBL: c->ltbl->get(c->ltbl, key(c->n / 2), &sz, false); break;
    default: break;
    }
}

static void viol(const char *kind, const char *op, const char *cls, const char *fmt, ...) __attribute__((format(printf, 4, 5)));
static void viol(const char *kind, const char *op, const char *cls, const char *fmt, ...) {
    char msg[500]; va_list ap; va_start(ap, fmt); vsnprintf(msg, sizeof msg, fmt, ap); va_end(ap);
    char key[200]; snprintf(key, sizeof key, "oom:%s.%s:%s", kind, op, cls);
    for (char *p = key; *p; p++) if (*p == ' ') *p = '_';
    vf_viol("C15", key, "%s", msg);
}

static void enumerate_op(int kind, op_t *o, int v, int n, int cfg) {
    for (int mode = 0; mode < 2; mode++) for (long k = 1; k <= 40; k++) {
        ctx_t A, B;
        long mark = vf_ledger_mark();
        if (!build(&A, kind, n, cfg) || !build(&B, kind, n, cfg)) { fprintf(stderr, "h_oom: cannot build state\n"); exit(2); }
        warm(&A); warm(&B);
        vf_case_begin(vf_cur_case, "%s.%s variant=%d state n=%d cfg=%d fail k=%ld %s", KNAME[kind], o->name, v, n, cfg, k, mode ? "all-subsequent" : "single");
        res_t rB = o->call(&B, v);
        uint64_t dB = digest(&B);
        uint64_t d0 = digest(&A);
        vf_oom_k = k; vf_oom_all = mode;
        vf_log("%s.%s(variant %d) with allocation %ld failing (%s)", KNAME[kind], o->name, v, k, mode ? "and all later" : "single");
        oom_begin();
        res_t rA = o->call(&A, v);
        long hits = oom_end();
        if (!hits) { destroy(&A); destroy(&B); break; }          /* k exceeds the allocations of this call */
        vf_count("evaluations", 1); vf_count("fault_positions_injected", 1);
        vf_max("max_allocation_index_reached", k);
        { char nm[80]; snprintf(nm, sizeof nm, "%s.%s", KNAME[kind], o->name); vf_name("operations_covered", nm);
          vf_distinct("distinct", vf_hash(nm, strlen(nm), VF_H0) ^ (uint64_t)((((v * 64 + n) * 16 + cfg) * 64 + k) * 2 + mode)); }
        uint64_t dA = digest(&A);
        if (structure_problem) viol(KNAME[kind], o->name, "invariant", "after the injected failure: %s", structure_problem);
        else if (kind == K_LISTTBL && (A.ltbl->unique != B.ltbl->unique || A.ltbl->caseinsensitive != B.ltbl->caseinsensitive || A.ltbl->keepsorted != B.ltbl->keepsorted || A.ltbl->inserttop != B.ltbl->inserttop || A.ltbl->lookupforward != B.ltbl->lookupforward))
            viol(KNAME[kind], o->name, "options-changed", "the call (%s, errno %d) left the table with different option flags (inserttop %d, was %d): later operations do not behave normally (k=%ld)", rA.ok ? "success" : "failure", rA.err, (int)A.ltbl->inserttop, (int)B.ltbl->inserttop, k);
        else if (lock_left_held(&A)) viol(KNAME[kind], o->name, "lock-held-after-failure", "the call returned (%s, errno %d) with the container's lock still held: a second thread can not take it (k=%ld)", rA.ok ? "success" : "failure", rA.err, k);
        else if (!rA.ok) {
            vf_count("oom_reported_failure", 1);
            if (dA != d0) viol(KNAME[kind], o->name, "changed-on-failure", "call reported failure (errno %d) but the observable state changed (state n=%d, k=%ld)", rA.err, n, k);
            else { ctx_t C; if (build(&C, kind, n, cfg)) { warm(&C); if (battery(&A) != battery(&C)) viol(KNAME[kind], o->name, "battery-after-failure", "normal operations after the reported failure behave differently from an untouched twin"); destroy(&C); } }
        } else {
            vf_count("oom_completed_despite_failure", 1);
            if (!rB.ok) viol(KNAME[kind], o->name, "harness", "reference run failed");
            else if (rA.val != rB.val && strstr(o->name, "getnext")) viol(KNAME[kind], o->name, "resumed-walk-differs", "a walk resumed with the same cursor after a reported allocation failure delivered a different sequence than an undisturbed walk (state n=%d, k=%ld)", n, k);
            else if (rA.val != rB.val) viol(KNAME[kind], o->name, "wrong-result-reported-as-success", "call reported success but returned something else than the fault-free reference (state n=%d, k=%ld)", n, k);
            else if (dA != dB) viol(KNAME[kind], o->name, "wrong-state-reported-as-success", "call reported success but the resulting state differs from the fault-free reference (state n=%d, k=%ld)", n, k);
            else if (battery(&A) != battery(&B)) viol(KNAME[kind], o->name, "battery-after-success", "normal operations afterwards behave differently from the reference twin");
        }
        destroy(&A); destroy(&B);
        long live = vf_ledger_live_since(mark);
        if (live) viol(KNAME[kind], o->name, "leak", "%ld block(s) still allocated after both containers were freed (k=%ld)", live, k);
        if (vf_foreign_frees) { viol(KNAME[kind], o->name, "double-free", "free() of a block that was not live"); vf_foreign_frees = 0; }
        vf_san_poll();
    }
}

/* elements far larger than a thread stack (16 MiB): scratch space of an operation must come from the heap, where its failure can be reported */
static uint64_t hv_digest(qvector_t *v, size_t os) { uint64_t h = vf_hash(&v->num, sizeof v->num, VF_H0); for (size_t i = 0; i < v->num; i++) { unsigned char *e = (unsigned char *)v->data + i * os; h = vf_hash(e, 64, h); h = vf_hash(e + os - 64, 64, h); } return h; }
static qvector_t *hv_build(size_t os, int n) { qvector_t *v = qvector(0, os, QVECTOR_RESIZE_EXACT); if (!v) return NULL; unsigned char *e = hm_alloc(os); for (int i = 0; i < n; i++) { memset(e, 'a' + i, os); e[os - 1] = (unsigned char)i; if (!v->addlast(v, e)) { hm_free(e); v->free(v); return NULL; } } hm_free(e); return v; }
static void huge_elements(void) {
    static const char *ON[] = {"reverse", "addfirst", "popat", "getat(newmem)", "toarray", "resize"};
    size_t os = 16u << 20; unsigned char *ne = hm_alloc(os); memset(ne, 'Z', os);
    for (int op = 0; op < 6; op++) for (int mode = 0; mode < 2; mode++) for (long k = 0; k <= 6; k++) {
        long mark = vf_ledger_mark();
        qvector_t *A = hv_build(os, 3), *B = hv_build(os, 3); if (!A || !B) { fprintf(stderr, "h_oom: cannot build the huge-element vectors\n"); exit(2); }
        uint64_t d0 = hv_digest(A, os); bool okA = true, okB = true; void *pa = NULL, *pb = NULL; size_t ca = 0, cb = 0;
        vf_log("qvector.%s on 3 elements of %zu bytes, allocation %ld failing (%s)", ON[op], os, k, mode ? "and all later" : "single");
        for (int side = 0; side < 2; side++) { qvector_t *v = side ? A : B; bool *ok = side ? &okA : &okB; void **p = side ? &pa : &pb; size_t *cn = side ? &ca : &cb;
            if (side) { vf_oom_k = k; vf_oom_all = mode; oom_begin(); }
            errno = 0;
            switch (op) { case 0: v->reverse(v); *ok = errno != ENOMEM; break; case 1: *ok = v->addfirst(v, ne); break; case 2: *p = v->popat(v, 1); *ok = *p != NULL; break;
                          case 3: *p = v->getat(v, -1, true); *ok = *p != NULL; break; case 4: *p = v->toarray(v, cn); *ok = *p != NULL; break; default: *ok = v->resize(v, 5); }
        }
        long hits = oom_end();
        uint64_t dA = hv_digest(A, os), dB = hv_digest(B, os);
        vf_count("evaluations", 1); vf_count("huge_element_operations", 1); if (hits) vf_count("fault_positions_injected", 1);
        if (!okB) viol("qvector", ON[op], "harness", "the fault-free reference run failed (errno %d)", errno);
        else if (!okA) { if (!hits) viol("qvector", ON[op], "failed-without-fault", "the call on 16 MiB elements failed although no allocation failed"); else { vf_count("oom_reported_failure", 1); if (dA != d0) viol("qvector", ON[op], "changed-on-failure", "call on 16 MiB elements reported failure but the contents changed (k=%ld)", k); } }
        else { if (dA != dB) viol("qvector", ON[op], "wrong-state-reported-as-success", "call on 16 MiB elements reported success but the contents differ from the fault-free twin (k=%ld)", k);
               else if ((pa || pb) && (ca != cb || !pa || !pb || memcmp(pa, pb, op == 4 ? os * 3 : os))) viol("qvector", ON[op], "wrong-result-reported-as-success", "call on 16 MiB elements returned something else than the fault-free twin (k=%ld)", k); }
        free(pa); free(pb); A->free(A); B->free(B);
        if (vf_ledger_live_since(mark)) viol("qvector", ON[op], "leak", "%ld block(s) still allocated after the huge-element vectors were freed", vf_ledger_live_since(mark));
        if (k > 0 && !hits) break;
    }
    hm_free(ne);
    vf_sample("qvector with 3 elements of 16 MiB: reverse/addfirst/popat/getat(newmem)/toarray/resize fault-free and with each allocation failing, differential against a twin");
}

/* constructors: every allocation failing in turn, with and without the thread-safe flag */
static void constructors(long caseno) {
    static const char *CN[] = {"qtreetbl()", "qhashtbl()", "qlisttbl()", "qlist()", "qqueue()", "qstack()", "qgrow()", "qvector()", "qhasharr()"};
    for (int kind = 0; kind < 9; kind++) for (int ts = 0; ts < 2; ts++) for (int mode = 0; mode < 2; mode++) for (long k = 1; k <= 12; k++) {
        if (kind == 8 && ts) continue;
        vf_case_begin(caseno, "constructor %s threadsafe=%d fail k=%ld %s", CN[kind], ts, k, mode ? "all-subsequent" : "single");
        long mark = vf_ledger_mark();
        void *mem = NULL; size_t ms = 0;
        if (kind == 8) { ms = qhasharr_calculate_memsize(4); mem = hm_alloc(ms); }
        vf_oom_k = k; vf_oom_all = mode;
        vf_cpu_arm("constructor", 5000);
        oom_begin(); errno = 0;
        void *c = NULL;
        switch (kind) {
        case 0: c = qtreetbl(ts ? QTREETBL_THREADSAFE : 0); break; case 1: c = qhashtbl(11, ts ? QHASHTBL_THREADSAFE : 0); break; case 2: c = qlisttbl(ts ? QLISTTBL_THREADSAFE : 0); break;
        case 3: c = qlist(ts ? QLIST_THREADSAFE : 0); break; case 4: c = qqueue(ts ? QQUEUE_THREADSAFE : 0); break; case 5: c = qstack(ts ? QSTACK_THREADSAFE : 0); break;
        case 6: c = qgrow(ts ? QGROW_THREADSAFE : 0); break; case 7: c = qvector(4, 8, ts ? QVECTOR_THREADSAFE : 0); break; default: c = qhasharr(mem, ms); break;
        }
        int e = errno;
        long hits = oom_end();
        vf_cpu_disarm();
        if (!hits) { /* constructor makes fewer than k allocations */
            if (c) switch (kind) { case 0: ((qtreetbl_t *)c)->free(c); break; case 1: ((qhashtbl_t *)c)->free(c); break; case 2: ((qlisttbl_t *)c)->free(c); break; case 3: ((qlist_t *)c)->free(c); break;
                case 4: ((qqueue_t *)c)->free(c); break; case 5: ((qstack_t *)c)->free(c); break; case 6: ((qgrow_t *)c)->free(c); break; case 7: ((qvector_t *)c)->free(c); break; default: ((qhasharr_t *)c)->free(c); break; }
            hm_free(mem); break; }
        vf_count("evaluations", 1); vf_count("fault_positions_injected", 1); vf_count("constructor_faults", 1);
        vf_name("operations_covered", CN[kind]);
        vf_distinct("distinct", (uint64_t)(((kind * 2 + ts) * 2 + mode) * 64 + k) + 77);
        if (!c) { vf_count("oom_reported_failure", 1); if (e != ENOMEM) viol("constructor", CN[kind], "errno", "constructor returned NULL with errno=%d", e); }
        else { vf_count("oom_completed_despite_failure", 1);
            /* must be usable */
            bool ok = true;
            switch (kind) {
            case 0: { qtreetbl_t *t = c; ok = t->putstr(t, "a", "b") && t->size(t) == 1; t->free(t); break; }
            case 1: { qhashtbl_t *t = c; ok = t->putstr(t, "a", "b") && t->size(t) == 1; t->free(t); break; }
            case 2: { qlisttbl_t *t = c; ok = t->putstr(t, "a", "b") && t->size(t) == 1; t->free(t); break; }
            case 3: { qlist_t *t = c; ok = t->addlast(t, "a", 2) && t->size(t) == 1; t->free(t); break; }
            case 4: { qqueue_t *t = c; ok = t->push(t, "a", 2) && t->size(t) == 1; t->free(t); break; }
            case 5: { qstack_t *t = c; ok = t->push(t, "a", 2) && t->size(t) == 1; t->free(t); break; }
            case 6: { qgrow_t *t = c; ok = t->add(t, "a", 2) && t->size(t) == 1; t->free(t); break; }
            case 7: { qvector_t *t = c; ok = t->addlast(t, "abcdefgh") && t->size(t) == 1; t->free(t); break; }
            default: { qhasharr_t *t = c; ok = t->putstr(t, "a", "b") && t->size(t, NULL, NULL) == 1; t->free(t); break; }
            }
            if (!ok) viol("constructor", CN[kind], "unusable", "constructor succeeded under an injected failure but the container is not usable");
        }
        hm_free(mem);
        long live = vf_ledger_live_since(mark);
        if (live) viol("constructor", CN[kind], "leak", "%ld block(s) leaked by a constructor whose allocation %ld failed (threadsafe=%d)", live, k, ts);
        vf_san_poll();
    }
    vf_sample("constructors: each of qtreetbl/qhashtbl/qlisttbl/qlist/qqueue/qstack/qgrow/qvector/qhasharr with and without the thread-safe flag, allocation k=1.. failing (single / all-subsequent)");
}

int main(int argc, char **argv) {
    vf_init(argc, argv, "h_oom");
    if (strcmp(VF.prop, "C15")) { fprintf(stderr, "h_oom: unsupported property %s\n", VF.prop); return 2; }
    vf_ledger_enable(true);
    { int fd = memfd_create("h_oom-load", 0), fd2 = memfd_create("h_oom-save", 0); if (fd < 0 || fd2 < 0) { fprintf(stderr, "h_oom: memfd_create failed\n"); return 2; }
      static const char doc[] = "la=1\n  lb = two words \n# comment\n\nk000=%41%3d\nlc=x\n"; if (write(fd, doc, sizeof doc - 1) != (ssize_t)(sizeof doc - 1)) return 2;
      snprintf(LOADPATH, sizeof LOADPATH, "/proc/self/fd/%d", fd); snprintf(SAVEPATH, sizeof SAVEPATH, "/proc/self/fd/%d", fd2); }
    static const int STATES[5] = {0, 1, 2, 7, 40};
    long caseno = 0;
    if (vf_mine(caseno)) { vf_case_begin(caseno, "constructors"); constructors(caseno); }
    caseno++;
    if (vf_mine(9000)) { vf_case_begin(9000, "vector operations on elements larger than a thread stack"); huge_elements(); }
    for (int kind = 0; kind < NKINDS; kind++) for (op_t *o = OPTAB[kind]; o->name; o++, caseno++) {
        if (!vf_mine(caseno)) continue;
        vf_case_begin(caseno, "%s.%s", KNAME[kind], o->name);
        for (int si = 0; si < 5; si++) for (int cfg = 0; cfg < (VF.thorough ? 8 : 4); cfg++) for (int v = 0; v < o->nvar; v++)
            enumerate_op(kind, o, v, STATES[si], cfg);
        if (caseno % 12 == 1) vf_sample("%s.%s: states n=0,1,2,7,40 x configurations (thread-safe flag, range/options/growth policy) x variants x k-th allocation failing, differential against a fault-free twin", KNAME[kind], o->name);
    }
    return vf_finish() ? 1 : 0;
}
