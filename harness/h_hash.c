/* h_hash.c - C18: qhashmd5 / qhashmd5_file / qhashmurmur3_32 / qhashmurmur3_128 / qhashfnv1_32 / qhashfnv1_64
 * equal the independent references (refs/ref_hash.c) for every length 1..600 x 8 alignments x 5 content
 * classes, larger random sizes and file ranges; the result must not depend on the buffer address or on the
 * bytes behind the buffer; buffers end exactly at the end of their allocation (asan build).
 */
#define _GNU_SOURCE
#include <stdlib.h>
#include <string.h>
#include <errno.h>
#include <unistd.h>
#include <fcntl.h>
#include <sys/mman.h>
#include <pthread.h>
#include "qlibc.h"
#include "vfc.h"
#include <sys/resource.h>
#include "ref_hash.h"
#ifdef __SANITIZE_ADDRESS__
#include <sanitizer/asan_interface.h>
#define POISON(p, n) ASAN_POISON_MEMORY_REGION(p, n)
#define UNPOISON(p, n) ASAN_UNPOISON_MEMORY_REGION(p, n)
#else
#define POISON(p, n) ((void)0)
#define UNPOISON(p, n) ((void)0)
#endif

static rng_t R;
static const char *CLS[] = {"random", "all-zero", "all-0xff", "embedded-NULs", "high-bit"};

static void fill(unsigned char *p, size_t n, int cls) {
    for (size_t i = 0; i < n; i++)
        p[i] = cls == 0 ? (unsigned char)rng_below(&R, 256) : cls == 1 ? 0 : cls == 2 ? 0xff : cls == 3 ? (rng_chance(&R, 1, 3) ? 0 : (unsigned char)(1 + rng_below(&R, 255))) : (unsigned char)(0x80 | rng_below(&R, 128));
    if (cls == 3 && n > 1) p[n / 2] = 0;
}
typedef struct { unsigned char md5[16]; uint32_t m32; unsigned char m128[16]; uint32_t f32; uint64_t f64; } all_t;
static unsigned char RETB[64];
static void lib_all(const unsigned char *p, size_t n, all_t *o, int retoff) {
    memset(o, 0, sizeof *o);
    unsigned char *rb = RETB + 8 + retoff;          /* result buffers at arbitrary alignment */
    if (qhashmd5(p, n, rb)) memcpy(o->md5, rb, 16);
    o->m32 = qhashmurmur3_32(p, n);
    if (qhashmurmur3_128(p, n, rb)) memcpy(o->m128, rb, 16);
    o->f32 = qhashfnv1_32(p, n);
    o->f64 = qhashfnv1_64(p, n);
}
static void ref_all(const unsigned char *p, size_t n, all_t *o) {
    memset(o, 0, sizeof *o);
    ref_md5(p, n, o->md5); o->m32 = ref_murmur3_32(p, n); ref_murmur3_128(p, n, o->m128); o->f32 = ref_fnv1_32(p, n); o->f64 = ref_fnv1_64(p, n);
}
static const char *diff(const all_t *a, const all_t *b) {
    if (memcmp(a->md5, b->md5, 16)) return "qhashmd5";
    if (a->m32 != b->m32) return "qhashmurmur3_32";
    if (memcmp(a->m128, b->m128, 16)) return "qhashmurmur3_128";
    if (a->f32 != b->f32) return "qhashfnv1_32";
    if (a->f64 != b->f64) return "qhashfnv1_64";
    return NULL;
}

static void cell(size_t len, int align, int cls) {
    unsigned char *content = hm_alloc(len); fill(content, len, cls);
    /* placement 1: data ends exactly at the end of its allocation, `align` slack bytes in front are poisoned */
    unsigned char *b1 = hm_alloc(len + (size_t)align + 16); unsigned char *a1 = hm_alloc(len + (size_t)align);
    hm_free(b1);
    unsigned char *d1 = a1 + align; memcpy(d1, content, len);
    memset(a1, 0xEE, (size_t)align); POISON(a1, (size_t)align);
    all_t L1, L2, RF;
    vf_log("len=%zu align=%d class=%s data=%s", len, align, CLS[cls], vf_hex(content, len));
    lib_all(d1, len, &L1, align);
    UNPOISON(a1, (size_t)align);
    ref_all(content, len, &RF);
    const char *w = diff(&L1, &RF);
    if (w) { char key[64]; snprintf(key, sizeof key, "wrong-hash:%s", w); vf_viol("C18", key, "%s differs from the reference for length %zu, alignment %d, class %s", w, len, align, CLS[cls]); }
    else {
        /* placement 2: another address/alignment, followed by different garbage */
        int al2 = (align + 3) % 8;
        unsigned char *a2 = hm_alloc(len + (size_t)al2 + 24); unsigned char *d2 = a2 + al2; memcpy(d2, content, len);
        for (int i = 0; i < 24; i++) d2[len + (size_t)i] = (unsigned char)(1 + rng_below(&R, 255));
        lib_all(d2, len, &L2, al2);
        w = diff(&L1, &L2);
        if (w) { char key[64]; snprintf(key, sizeof key, "address-or-tail-dependent:%s", w); vf_viol("C18", key, "%s gives different results for the same %zu bytes at another address / with other bytes behind the buffer", w, len); }
        hm_free(a2);
    }
    /* the 16-byte result may be stored into the hashed buffer itself (in-place / a record holding its own digest): the value is that of the bytes passed in */
    if (len >= 16 && align == 0) { unsigned char want5[16], wantm[16]; ref_md5(content, len, want5); ref_murmur3_128(content, len, wantm);
        size_t off = len >= 24 && cls % 2 ? 8 : 0;
        unsigned char *w1 = hm_alloc(len); memcpy(w1, content, len); bool ok = qhashmurmur3_128(w1, len, w1 + off);
        if (!ok || memcmp(w1 + off, wantm, 16)) vf_viol("C18", "result-in-input:qhashmurmur3_128", "qhashmurmur3_128 with the result stored at offset %zu of the %zu hashed bytes differs from the reference", off, len);
        memcpy(w1, content, len); ok = qhashmd5(w1, len, w1 + off);
        if (!ok || memcmp(w1 + off, want5, 16)) vf_viol("C18", "result-in-input:qhashmd5", "qhashmd5 with the result stored at offset %zu of the %zu hashed bytes differs from the reference", off, len);
        hm_free(w1); vf_count("results_stored_into_the_hashed_buffer", 2); }
    vf_san_poll();
    hm_free(a1); hm_free(content);
    vf_count("evaluations", 1); vf_count("cells", 1);
    vf_distinct("distinct", (uint64_t)((len * 8 + (size_t)align) * 8 + (size_t)cls) + 1);
}

/* "a pure function of exactly the given bytes": four threads hash different buffers and files at the same time (hidden static state would mix them up) */
typedef struct { int id; char path[160]; unsigned char *content; size_t n; int bad; } pw_t;
static pthread_barrier_t PBAR;
static void *pure_worker(void *arg) {
    pw_t *w = arg; unsigned char want[16], got[16], w128[16], g128[16]; ref_md5(w->content, w->n, want); ref_murmur3_128(w->content, w->n, w128);
    uint32_t m32 = ref_murmur3_32(w->content, w->n), f32 = ref_fnv1_32(w->content, w->n); uint64_t f64 = ref_fnv1_64(w->content, w->n);
    pthread_barrier_wait(&PBAR);
    for (int round = 0; round < 12; round++) {
        memset(got, 0, 16); if (!qhashmd5_file(w->path, 0, 0, got) || memcmp(got, want, 16)) w->bad |= 1;
        memset(got, 0, 16); if (!qhashmd5(w->content, w->n, got) || memcmp(got, want, 16)) w->bad |= 2;
        memset(g128, 0, 16); if (!qhashmurmur3_128(w->content, w->n, g128) || memcmp(g128, w128, 16)) w->bad |= 4;
        if (qhashmurmur3_32(w->content, w->n) != m32 || qhashfnv1_32(w->content, w->n) != f32 || qhashfnv1_64(w->content, w->n) != f64) w->bad |= 8;
    }
    return NULL;
}
static void concurrent_purity(long caseno) {
    enum { NT = 4 }; pw_t W[NT]; pthread_t th[NT];
    vf_case_begin(caseno, "4 threads hashing different buffers and files concurrently");
    pthread_barrier_init(&PBAR, NULL, NT);
    for (int i = 0; i < NT; i++) { W[i].id = i; W[i].bad = 0; W[i].n = 300000 + (size_t)i * 4099; W[i].content = hm_alloc(W[i].n); fill(W[i].content, W[i].n, i % 5 == 1 ? 0 : 0); for (size_t k = 0; k < W[i].n; k += 97) W[i].content[k] ^= (unsigned char)(i * 37 + 1);
        snprintf(W[i].path, sizeof W[i].path, "h_hash-par-%d-%d-%d.bin", VF.shard, (int)getpid(), i);
        int fd = open(W[i].path, O_WRONLY | O_CREAT | O_TRUNC, 0600); if (fd < 0 || write(fd, W[i].content, W[i].n) != (ssize_t)W[i].n) { fprintf(stderr, "h_hash: cannot write %s\n", W[i].path); exit(2); } close(fd); }
    for (int i = 0; i < NT; i++) pthread_create(&th[i], NULL, pure_worker, &W[i]);
    for (int i = 0; i < NT; i++) pthread_join(th[i], NULL);
    for (int i = 0; i < NT; i++) { if (W[i].bad) { static const char *FN[] = {"qhashmd5_file", "qhashmd5", "qhashmurmur3_128", "qhashmurmur3_32/fnv"}; for (int b = 0; b < 4; b++) if (W[i].bad >> b & 1) { char key[80]; snprintf(key, sizeof key, "not-pure-under-concurrency:%s", FN[b]); vf_viol("C18", key, "thread %d: %s returned a digest that is not that of its own bytes while other threads were hashing other data", i, FN[b]); } }
        unlink(W[i].path); hm_free(W[i].content); }
    pthread_barrier_destroy(&PBAR);
    vf_count("evaluations", NT * 12 * 6); vf_count("concurrent_hash_rounds", NT * 12); vf_distinct("distinct", VF_H0 + 777001);
}
static void file_ranges(long caseno) {
    static const size_t SIZES[] = {0, 1, 32 * 1024 - 1, 32 * 1024, 32 * 1024 + 1, 100 * 1024, (1u << 20) + 777, (5u << 20) + 13};
    char path[128]; snprintf(path, sizeof path, "h_hash-%d-%d.bin", VF.shard, (int)getpid());
    for (int si = 0; si < 8; si++) {
        size_t fs = SIZES[si];
        unsigned char *content = hm_alloc(fs + 1); fill(content, fs, 0);
        int fd = open(path, O_WRONLY | O_CREAT | O_TRUNC, 0600); if (fd < 0 || write(fd, content, fs) != (ssize_t)fs) { fprintf(stderr, "h_hash: cannot write %s\n", path); exit(2); } close(fd);
        for (int t = 0; t < 24; t++) {
            off_t off; ssize_t nb;
            switch (t % 8) {
            case 0: off = 0; nb = 0; break;                                        /* whole file */
            case 1: off = 0; nb = (ssize_t)fs; break;
            case 2: off = fs ? (off_t)rng_below(&R, (uint32_t)fs) : 0; nb = 0; break;   /* to the end */
            case 3: off = fs ? (off_t)rng_below(&R, (uint32_t)fs) : 0; nb = fs ? (ssize_t)rng_below(&R, (uint32_t)(fs - (size_t)off) + 1) : 0; break;
            case 4: off = (off_t)fs; nb = 1; break;                                   /* out of range */
            case 5: off = (off_t)fs + 5; nb = 0; break;                               /* out of range */
            case 6: off = 0; nb = (ssize_t)fs + 1; break;                             /* out of range */
            default: off = fs > 40000 ? 32768 : 0; nb = fs > 40000 ? 32769 : (ssize_t)(fs / 2); break;
            }
            unsigned char got[16], want[16]; memset(got, 0, 16);
            vf_case_begin(caseno, "md5 of file range: size=%zu offset=%ld nbytes=%zd", fs, (long)off, nb);
            errno = 0;
            bool r = qhashmd5_file(path, off, nb, got);
            bool in_range = (size_t)off + (size_t)nb <= fs;
            size_t eff = nb == 0 ? (in_range ? fs - (size_t)off : 0) : (size_t)nb;
            vf_count("evaluations", 1); vf_count(in_range ? "file_ranges_in_range" : "file_ranges_out_of_range", 1);
            vf_distinct("distinct", 0x7000000 + (uint64_t)(si * 64 + t));
            if (!in_range) { if (r) vf_viol("C18", "md5_file-out-of-range", "qhashmd5_file accepted offset %ld + length %zd beyond the %zu-byte file", (long)off, nb, fs); continue; }
            if (eff == 0) continue;      /* empty range: MD5 of nothing, not covered by the statement (non-empty strings) */
            if (!r) { vf_viol("C18", "md5_file-failed", "qhashmd5_file failed for offset %ld length %zd of a %zu-byte file (errno %d)", (long)off, nb, fs, errno); continue; }
            ref_md5(content + off, eff, want);
            if (memcmp(got, want, 16)) vf_viol("C18", "wrong-hash:qhashmd5_file", "digest of range (%ld,%zd) of a %zu-byte file differs from the reference", (long)off, nb, fs);
#if !defined(__SANITIZE_ADDRESS__)
            /* the same range with the address space of the process exhausted (RLIMIT_AS at 4 KiB: mmap() and any larger malloc() fail; the stack was grown
             * beforehand): the call may refuse, but a digest it delivers is that of exactly the requested bytes. Not under ASan, whose run-time maps memory itself. */
            { volatile char grow[192 * 1024]; grow[0] = 1; grow[sizeof grow - 1] = 1;
              struct rlimit old, lim; getrlimit(RLIMIT_AS, &old); lim = old; lim.rlim_cur = 4096; memset(got, 0, 16);
              setrlimit(RLIMIT_AS, &lim); bool r2 = qhashmd5_file(path, off, nb, got); setrlimit(RLIMIT_AS, &old);
              vf_count(r2 ? "file_ranges_digested_without_address_space" : "file_ranges_refused_without_address_space", 1);
              if (r2 && memcmp(got, want, 16)) vf_viol("C18", "wrong-hash:qhashmd5_file:no-address-space", "with the address space exhausted (mmap fails) the digest of range (%ld,%zd) of a %zu-byte file differs from the reference", (long)off, nb, fs); }
#endif
        }
        hm_free(content);
    }
    unlink(path);
    vf_sample("file ranges: sizes 0/1/32767/32768/32769/102400/1 MiB+777/5 MiB+13 x (whole, to-end, inner, out-of-range) offset/length classes");
}

int main(int argc, char **argv) {
    vf_init(argc, argv, "h_hash");
    if (strcmp(VF.prop, "C18")) { fprintf(stderr, "h_hash: unsupported property %s\n", VF.prop); return 2; }
    /* reference self-test against published vectors */
    { unsigned char o[16]; ref_md5("abc", 3, o); static const unsigned char E[16] = {0x90, 0x01, 0x50, 0x98, 0x3c, 0xd2, 0x4f, 0xb0, 0xd6, 0x96, 0x3f, 0x7d, 0x28, 0xe1, 0x7f, 0x72};
      if (memcmp(o, E, 16) || ref_murmur3_32("The quick brown fox jumps over the lazy dog", 43) != 0x2e4ff723u || ref_fnv1_32("foobar", 6) != 0x31f0b262u || ref_fnv1_64("foobar", 6) != 0x340d8765a4dda9c2ULL)
      { fprintf(stderr, "h_hash: reference implementations fail their published vectors\n"); return 2; }
      ref_murmur3_128("The quick brown fox jumps over the lazy dog", 43, o); static const unsigned char M[16] = {0x6c, 0x1b, 0x07, 0xbc, 0x7b, 0xbc, 0x4b, 0xe3, 0x47, 0x93, 0x9a, 0xc4, 0xa9, 0x3c, 0x43, 0x7a};
      if (memcmp(o, M, 16)) { fprintf(stderr, "h_hash: reference murmur3_128 fails its published vector\n"); return 2; } }
    int seeds = (int)vf_arg_long("seeds", 1);
    long caseno = 0;
    for (size_t len = 1; len <= 600; len++, caseno++) {
        if (!vf_mine(caseno)) continue;
        vf_case_begin(caseno, "length %zu: 8 alignments x 5 content classes x %d seed(s)", len, seeds);
        for (int s = 0; s < seeds; s++) { rng_seed(&R, VF.seed + (uint64_t)s * 7919, (uint64_t)caseno);
            for (int a = 0; a < 8; a++) for (int c = 0; c < 5; c++) cell(len, a, c); }
        if (len == 1 || len == 64 || len == 600) vf_sample("length %zu: all 6 functions x alignments 0..7 x classes random/all-zero/all-0xff/embedded-NULs/high-bit, compared with the references and between two placements", len);
    }
    long nbig = vf_arg_long("big", 64);
    for (long i = 0; i < nbig; i++, caseno++) {
        if (!vf_mine(caseno)) continue;
        rng_seed(&R, VF.seed, (uint64_t)caseno);
        size_t len = 601 + rng_below(&R, i % 8 == 0 ? 1024 * 1024 : 70000);
        vf_case_begin(caseno, "large random size %zu", len);
        cell(len, (int)rng_below(&R, 8), (int)rng_below(&R, 5));
        vf_count("large_sizes", 1); vf_max("max_length", (long)len);
    }
    if (vf_mine(caseno)) { rng_seed(&R, VF.seed, (uint64_t)caseno); file_ranges(caseno); }
    caseno++;
    if (vf_mine(caseno)) concurrent_purity(caseno);
    caseno++;
    /* "every length": one buffer longer than 4 GiB (lengths that do not fit 32 bits); thorough tier only, mostly untouched zero pages */
    long hugemode = vf_arg_long("huge", 0);        /* 1: everything below (thorough); 2: only the first huge file range (quick) */
    if (hugemode && vf_mine(caseno)) {
        size_t len = ((size_t)1 << 32) + 5;
        if (hugemode == 2) goto file_part; vf_case_begin(caseno, "huge buffer of %zu bytes (MD5)", len);
        unsigned char *m = mmap(NULL, len + 4096, PROT_READ | PROT_WRITE, MAP_PRIVATE | MAP_ANONYMOUS | MAP_NORESERVE, -1, 0);
        if (m == MAP_FAILED) vf_count("huge_buffer_unavailable", 1);
        else { m[0] = 'q'; m[4] = 'L'; m[len - 1] = 'z'; m[((size_t)1 << 32) - 1] = 7;
            unsigned char got[16], want[16]; memset(got, 0, 16);
            vf_cpu_arm("qhashmd5", 600000); bool ok = qhashmd5(m, len, got); vf_cpu_disarm(); ref_md5(m, len, want);
            if (!ok || memcmp(got, want, 16)) vf_viol("C18", "wrong-hash:qhashmd5:huge", "qhashmd5 of a %zu-byte buffer differs from the reference (%s)", len, vf_hex(got, 16));
            vf_count("evaluations", 1); vf_count("huge_buffers", 1); vf_max("max_length", (long)len); vf_distinct("distinct", VF_H0 + 999331);
            /* ... and the Murmur functions on 2^31+1 bytes of the same region (block counts and offsets that do not fit an int) */
            size_t l2 = ((size_t)1 << 31) + 1; m[l2 - 1] = 0x5b; unsigned char g128[16], w128[16]; memset(g128, 0, 16);
            vf_case_begin(caseno, "huge buffer of %zu bytes (Murmur3)", l2);
            vf_cpu_arm("qhashmurmur3", 600000); uint32_t g32 = qhashmurmur3_32(m, l2); bool ok128 = qhashmurmur3_128(m, l2, g128); vf_cpu_disarm();
            uint32_t w32 = ref_murmur3_32(m, l2); ref_murmur3_128(m, l2, w128);
            if (g32 != w32) vf_viol("C18", "wrong-hash:qhashmurmur3_32:huge", "qhashmurmur3_32 of a %zu-byte buffer is %08x, reference %08x", l2, g32, w32);
            if (!ok128 || memcmp(g128, w128, 16)) vf_viol("C18", "wrong-hash:qhashmurmur3_128:huge", "qhashmurmur3_128 of a %zu-byte buffer differs from the reference", l2);
            vf_count("evaluations", 2); vf_count("huge_buffers", 2);
            munmap(m, len + 4096); }
        file_part:
        /* ... and file ranges of 512 MiB and more (the bit counter of the digest wraps its low word while the file is fed in 32 KiB pieces): a sparse file */
        { char path[160]; snprintf(path, sizeof path, "h_hash-huge-%d-%d.bin", VF.shard, (int)getpid()); size_t fl = ((size_t)512 << 20) + 4133;
          int fd = open(path, O_RDWR | O_CREAT | O_TRUNC, 0600);
          if (fd >= 0 && ftruncate(fd, (off_t)fl) == 0 && pwrite(fd, "head", 4, 0) == 4 && pwrite(fd, "tail", 4, (off_t)fl - 4) == 4 && pwrite(fd, "mid", 3, (off_t)4133 + 77) == 3) {
              unsigned char *fm = mmap(NULL, fl, PROT_READ, MAP_PRIVATE, fd, 0);
              if (fm != MAP_FAILED) {
                  static const struct { off_t off; ssize_t nb; } RG[] = {{0, 0}, {4133, 0}, {0, (ssize_t)512 << 20}, {100, ((ssize_t)512 << 20) - 1}, {5, ((ssize_t)512 << 20) + 1}};
                  for (int i = 0; i < (hugemode == 2 ? 1 : 5); i++) { size_t eff = RG[i].nb ? (size_t)RG[i].nb : fl - (size_t)RG[i].off; unsigned char got[16], want[16]; memset(got, 0, 16);
                      vf_case_begin(caseno, "md5 of a huge file range: size=%zu offset=%ld nbytes=%zd", fl, (long)RG[i].off, RG[i].nb);
                      vf_cpu_arm("qhashmd5_file", 600000); bool ok = qhashmd5_file(path, RG[i].off, RG[i].nb, got); vf_cpu_disarm(); ref_md5(fm + RG[i].off, eff, want);
                      if (!ok || memcmp(got, want, 16)) vf_viol("C18", "wrong-hash:qhashmd5_file:huge", "digest of range (%ld,%zd) of a %zu-byte file differs from the reference", (long)RG[i].off, RG[i].nb, fl);
                      vf_count("evaluations", 1); vf_count("huge_file_ranges", 1); }
                  munmap(fm, fl); } }
          else vf_count("huge_file_unavailable", 1);
          if (fd >= 0) close(fd);
          unlink(path); }
    }
    return vf_finish() ? 1 : 0;
}
