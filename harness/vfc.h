/* vfc.h - common support for the qLibc runtime-monitoring harnesses.
 *
 * PRNG, counters, distinct-hash sets, samples, per-case operation log,
 * violation/replay records, CPU watchdog, sanitizer-report attribution,
 * allocation ledger + failpoints (implemented in wrap.c through -Wl,--wrap).
 *
 * All harness-owned memory is obtained with hm_alloc()/hm_free() which go to the
 * real allocator, so the ledger holds library allocations only.
 */
#ifndef VFC_H
#define VFC_H

#include <stdint.h>
#include <stddef.h>
#include <stdbool.h>
#include <stdio.h>
#include <stdarg.h>

#ifdef __cplusplus
extern "C" {
#endif

/* ---- real allocator for harness-owned memory ---------------------------- */
void *__real_malloc(size_t);
void *__real_calloc(size_t, size_t);
void *__real_realloc(void *, size_t);
void __real_free(void *);
#define hm_alloc(n) vf_xalloc(n)
#define hm_free(p) __real_free(p)
void *vf_xalloc(size_t n);               /* aborts (exit 2) on harness OOM */
void *vf_xrealloc(void *p, size_t n);
void *vf_xdup(const void *p, size_t n);  /* exact-size heap copy (n==0 -> 1-byte block) */

/* ---- PRNG ---------------------------------------------------------------- */
typedef struct { uint64_t s[4]; } rng_t;
void rng_seed(rng_t *r, uint64_t seed, uint64_t stream);
uint64_t rng_next(rng_t *r);
static inline uint32_t rng_below(rng_t *r, uint32_t n) {
    return n ? (uint32_t)((rng_next(r) >> 32) * (uint64_t)n >> 32) : 0;
}
static inline bool rng_chance(rng_t *r, uint32_t num, uint32_t den) {
    return rng_below(r, den) < num;
}
uint64_t vf_hash(const void *p, size_t n, uint64_t h);  /* FNV-1a 64, chained */
#define VF_H0 1469598103934665603ULL

/* ---- run parameters ------------------------------------------------------ */
typedef struct {
    const char *harness;
    const char *prop;       /* property the run decides (tag of violations) */
    const char *tier;       /* quick | thorough */
    const char *mode;       /* harness-specific sub-workload */
    uint64_t seed;
    int shard, nshards;
    long only_case;         /* >=0: replay exactly this case, verbose */
    long start_case;        /* resume after a hang */
    const char *out;        /* result file path prefix */
    const char *replay_dir;
    bool thorough;
    bool verbose;
    int argc; char **argv;
} vf_params_t;
extern vf_params_t VF;

void vf_init(int argc, char **argv, const char *harness);
long vf_arg_long(const char *name, long dflt);   /* --name value */
const char *vf_arg_str(const char *name, const char *dflt);
bool vf_mine(long caseno);                       /* case belongs to this shard / replay filter */
int vf_finish(void);                             /* writes counters; returns exit code */

/* ---- event accounting ---------------------------------------------------- */
void vf_count(const char *name, long delta);
void vf_max(const char *name, long value);
void vf_distinct(const char *set, uint64_t h);   /* distinct-hash set, unioned by the driver */
void vf_sample(const char *fmt, ...) __attribute__((format(printf, 1, 2)));
#define VF_COUNT(name) vf_count(name, 1)
void vf_name(const char *set, const char *name);   /* named-string set, unioned by the driver (e.g. functions covered) */

/* ---- per-case operation log --------------------------------------------- */
void vf_case_begin(long caseno, const char *fmt, ...) __attribute__((format(printf, 2, 3)));
void vf_log(const char *fmt, ...) __attribute__((format(printf, 1, 2)));
const char *vf_hex(const void *p, size_t n);     /* rotating static buffers */
extern long vf_cur_case;
extern long vf_cur_op;

/* ---- verdicts ------------------------------------------------------------ */
/* records a violation of VF.prop (or `prop` if non-NULL) with stable key `key`.
 * Returns true when the caller should abandon the current case. */
bool vf_viol(const char *prop, const char *key, const char *fmt, ...)
    __attribute__((format(printf, 3, 4)));
extern int vf_nviol;
/* violation already recorded for the current case? */
bool vf_case_failed(void);
/* true iff a second thread can take (and release) the pthread mutex at m right now; m == NULL: true. A call that returned with the
 * container lock held goes unnoticed by its own thread (recursive mutex) and blocks every other thread for ever. */
bool vf_lock_probe(void *m);
void vf_abort_case(void);   /* record CRASH for the current case and exit(42): the driver restarts after it */

/* ---- errno on entry, per-operation CPU budget ------------------------------ */
extern int vf_errno_entry;          /* 1: every vf_log() leaves a (case,op)-derived errno value for the operation that follows */
extern int vf_op_budget_ms;         /* >0: every vf_log() arms the CPU watchdog with this budget ("hang:operation") */
int vf_entry_errno_for(uint64_t h);   /* a value chosen by h (e.g. a hash of the input and the call site) */
int vf_entry_errno(void);           /* the value for the current (case, op); counts the non-zero ones */
extern long vf_entry_errno_nonzero;

/* ---- CPU watchdog (ITIMER_VIRTUAL) --------------------------------------- */
void vf_cpu_arm(const char *what, int millis);
void vf_cpu_arm_prop(const char *prop, const char *what, int millis);  /* hang attributed to `prop` */
void vf_cpu_disarm(void);
void vf_wall_arm(int seconds);      /* stall watchdog: firing is inconclusive, not a violation */
void vf_wall_disarm(void);

/* ---- sanitizer attribution ---------------------------------------------- */
/* true when a sanitizer report (ASan callback or growth of the sanitizer log)
 * appeared since the last poll; records a violation keyed "san" for the case. */
bool vf_san_poll(void);
extern volatile int vf_asan_hits;

/* ---- allocation ledger / failpoints (wrap.c) ----------------------------- */
extern volatile long vf_alloc_calls;        /* library allocation calls since start */
extern volatile long vf_fail_at;            /* fail when vf_alloc_calls reaches this (0=off) */
extern volatile long vf_fail_from;          /* fail every call with index >= this (0=off) */
extern volatile long vf_fail_hits;
extern volatile int vf_errno_noise; extern volatile long vf_errno_noise_hits;   /* successful allocations leave errno = ENOMEM */
extern int vf_errno_noise_every;          /* failures delivered */
extern volatile long vf_alloc_budget;       /* if >0: trip when exceeded within a call */
extern volatile long vf_bytes_budget;       /* if >0: live library bytes cap */
extern volatile int vf_budget_tripped;
void vf_ledger_enable(bool on);
long vf_ledger_live(void);                  /* live library blocks */
long vf_ledger_live_bytes(void);
long vf_ledger_mark(void);                  /* epoch marker: blocks allocated after it... */
long vf_ledger_live_since(long mark);       /* ...still live */
void vf_ledger_dump_since(long mark, int max);
extern volatile long vf_foreign_frees;      /* free() of a pointer the ledger does not hold */
bool vf_ledger_has(const void *p);
size_t vf_ledger_size(const void *p);


/* ---- allocation-failure injection helpers (C15) ----------------------------- */
#ifndef VFC_OOM_HELPERS
#define VFC_OOM_HELPERS
extern long vf_oom_k;        /* request: fail the k-th allocation of the next library call (0 = none) */
extern bool vf_oom_all;      /* ... and every later one */
extern long vf_oom_last_allocs, vf_oom_last_hits;
static inline void oom_begin(void) {
    vf_fail_hits = 0; vf_oom_last_allocs = vf_alloc_calls;
    if (vf_oom_k > 0) { if (vf_oom_all) vf_fail_from = vf_alloc_calls + vf_oom_k; else vf_fail_at = vf_alloc_calls + vf_oom_k; }
}
/* returns the number of failures delivered during the call; the request is consumed */
static inline long oom_end(void) {
    vf_fail_at = 0; vf_fail_from = 0;
    vf_oom_last_allocs = vf_alloc_calls - vf_oom_last_allocs;
    vf_oom_last_hits = vf_fail_hits; vf_oom_k = 0;
    return vf_oom_last_hits;
}
#endif

#ifdef __cplusplus
}
#endif
#endif
