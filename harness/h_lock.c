/* h_lock.c - lock-depth monitor for C14: every public function of every lockable
 * container x every outcome class it can produce (success, invalid argument, missing
 * key, out-of-range index, empty, full, unknown stream, allocation failure at the
 * 1st..last allocation) x a corpus of states x entry depth 0 / 1.
 *
 * Oracle: the calling thread's depth on the container mutex (maintained in the
 * pthread_mutex_trylock/unlock interposers) after the call equals the depth before it,
 * and - when the entry depth was 0 - a probe thread's single trylock succeeds.
 */
#define _GNU_SOURCE
#include <stdlib.h>
#include <string.h>
#include <errno.h>
#include <pthread.h>
#include <unistd.h>
#include "qlibc.h"
#include "qlibcext.h"
#include "vfc.h"
#include "vflock.h"

int __real_pthread_mutex_trylock(pthread_mutex_t *);
int __real_pthread_mutex_unlock(pthread_mutex_t *);

enum { K_TREE, K_HASH, K_LISTTBL, K_LIST, K_QUEUE, K_STACK, K_GROW, K_VECTOR, K_LOG, NKINDS };
static const char *KNAME[NKINDS] = {"qtreetbl", "qhashtbl", "qlisttbl", "qlist", "qqueue", "qstack", "qgrow", "qvector", "qlog"};

typedef struct {
    int kind, n;
    qtreetbl_t *tree; qhashtbl_t *hash; qlisttbl_t *ltbl; qlist_t *list; qqueue_t *queue; qstack_t *stack; qgrow_t *grow; qvector_t *vec; qlog_t *log;
    void *mutex;
    FILE *devnull;
    char path[128];
} ctx_t;

static FILE *DEVNULL;
static char KEYB[32];
static const char *key(int i) { snprintf(KEYB, sizeof KEYB, "k%03d", i); return KEYB; }
static const char ELEM[8] = "e000001";     /* 7 chars + NUL = 8 bytes: valid as string and as int64 */

static void lock_it(ctx_t *c) {
    switch (c->kind) {
    case K_TREE: c->tree->lock(c->tree); break; case K_HASH: c->hash->lock(c->hash); break; case K_LISTTBL: c->ltbl->lock(c->ltbl); break;
    case K_LIST: c->list->lock(c->list); break; case K_QUEUE: c->queue->list->lock(c->queue->list); break; case K_STACK: c->stack->list->lock(c->stack->list); break;
    case K_GROW: c->grow->list->lock(c->grow->list); break; case K_VECTOR: c->vec->lock(c->vec); break; default: break;
    }
}
static void unlock_it(ctx_t *c) {
    switch (c->kind) {
    case K_TREE: c->tree->unlock(c->tree); break; case K_HASH: c->hash->unlock(c->hash); break; case K_LISTTBL: c->ltbl->unlock(c->ltbl); break;
    case K_LIST: c->list->unlock(c->list); break; case K_QUEUE: c->queue->list->unlock(c->queue->list); break; case K_STACK: c->stack->list->unlock(c->stack->list); break;
    case K_GROW: c->grow->list->unlock(c->grow->list); break; case K_VECTOR: c->vec->unlock(c->vec); break;
    default: if (c->mutex) __real_pthread_mutex_unlock((pthread_mutex_t *)c->mutex); break;
    }
}

static bool make(ctx_t *c, int kind, int n) {
    memset(c, 0, sizeof *c); c->kind = kind; c->n = n; c->devnull = DEVNULL;
    switch (kind) {
    case K_TREE: c->tree = qtreetbl(QTREETBL_THREADSAFE); if (!c->tree) return false; c->mutex = c->tree->qmutex;
        for (int i = 0; i < n; i++) c->tree->putstr(c->tree, key(i), "value"); break;
    case K_HASH: c->hash = qhashtbl(7, QHASHTBL_THREADSAFE); if (!c->hash) return false; c->mutex = c->hash->qmutex;
        for (int i = 0; i < n; i++) c->hash->putstr(c->hash, key(i), "12345"); break;
    case K_LISTTBL: c->ltbl = qlisttbl(QLISTTBL_THREADSAFE); if (!c->ltbl) return false; c->mutex = c->ltbl->qmutex;
        for (int i = 0; i < n; i++) c->ltbl->putstr(c->ltbl, key(i % 5), "12345"); break;
    case K_LIST: c->list = qlist(QLIST_THREADSAFE); if (!c->list) return false; c->mutex = c->list->qmutex;
        for (int i = 0; i < n; i++) c->list->addlast(c->list, ELEM, 8); break;
    case K_QUEUE: c->queue = qqueue(QQUEUE_THREADSAFE); if (!c->queue) return false; c->mutex = c->queue->list->qmutex;
        for (int i = 0; i < n; i++) c->queue->push(c->queue, ELEM, 8); break;
    case K_STACK: c->stack = qstack(QSTACK_THREADSAFE); if (!c->stack) return false; c->mutex = c->stack->list->qmutex;
        for (int i = 0; i < n; i++) c->stack->push(c->stack, ELEM, 8); break;
    case K_GROW: c->grow = qgrow(QGROW_THREADSAFE); if (!c->grow) return false; c->mutex = c->grow->list->qmutex;
        for (int i = 0; i < n; i++) c->grow->add(c->grow, ELEM, 8); break;
    case K_VECTOR: c->vec = qvector((size_t)n, 8, QVECTOR_THREADSAFE | (n & 1 ? QVECTOR_RESIZE_DOUBLE : QVECTOR_RESIZE_EXACT)); if (!c->vec) return false; c->mutex = c->vec->qmutex;
        for (int i = 0; i < n; i++) c->vec->addlast(c->vec, ELEM); break;
    case K_LOG: snprintf(c->path, sizeof c->path, "h_lock-%d-%d.log", VF.shard, (int)getpid());
        c->log = qlog(c->path, 0644, 0, QLOG_OPT_THREADSAFE | (n & 1 ? QLOG_OPT_FLUSH : 0)); if (!c->log) return false; c->mutex = c->log->qmutex;
        if (n > 1) c->log->duplicate(c->log, DEVNULL, n & 2); break;
    }
    if (!c->mutex) { fprintf(stderr, "h_lock: %s has no mutex\n", KNAME[kind]); exit(2); }
    vf_lock_register(c->mutex);
    return true;
}
static void destroy(ctx_t *c) {
    vf_lock_unregister_all();
    switch (c->kind) {
    case K_TREE: c->tree->free(c->tree); break; case K_HASH: c->hash->free(c->hash); break; case K_LISTTBL: c->ltbl->free(c->ltbl); break;
    case K_LIST: c->list->free(c->list); break; case K_QUEUE: c->queue->free(c->queue); break; case K_STACK: c->stack->free(c->stack); break;
    case K_GROW: c->grow->free(c->grow); break; case K_VECTOR: c->vec->free(c->vec); break; case K_LOG: c->log->free(c->log); unlink(c->path); break;
    }
}

/* ---- the function table ------------------------------------------------------------- */
/* variants: each function enumerates its own argument classes; index functions sweep [-n-2, n+2] */
typedef struct { const char *name; int (*nvar)(ctx_t *); const char *(*call)(ctx_t *, int v); } fn_t;
/* every row is executed twice: with its optional out-parameters (size_t *size, ...) pointing to storage, and with NULL there */
static bool NULLOUT;
#define OUT(p) (NULLOUT ? NULL : (p))
static int nv1(ctx_t *c) { (void)c; return 1; }
static int nv2(ctx_t *c) { (void)c; return 2; }
static int nv3(ctx_t *c) { (void)c; return 3; }
static int nv4(ctx_t *c) { (void)c; return 4; }
static int nv5(ctx_t *c) { (void)c; return 5; }
static int nv6(ctx_t *c) { (void)c; return 6; }
static int nvidx(ctx_t *c) { return c->n <= 7 ? 2 * c->n + 5 : 11; }
static int nvidx2(ctx_t *c) { return 2 * nvidx(c); }
static int idx_of(ctx_t *c, int v) {
    int n = c->n;
    if (n <= 7) return v - n - 2;
    int t[11] = {-n - 2, -n - 1, -n, -1, 0, 1, n / 2, n - 1, n, n + 1, n + 2};
    return t[v];
}
static char VD[64];
static const char *idxdesc(ctx_t *c, int i) { int n = c->n; int pos = i < 0 ? n + i : i; snprintf(VD, sizeof VD, "index=%d(%s)", i, n == 0 ? "empty" : (pos >= 0 && pos < n) ? "valid" : (pos == n ? "one-past" : "out-of-range")); return VD; }
/* key variants: 0 present (if n>0) 1 absent 2 NULL */
static const char *kname(ctx_t *c, int v) { return v == 0 ? (c->n ? key(0) : key(999)) : v == 1 ? key(999) : NULL; }
static const char *kdesc(ctx_t *c, int v) { return v == 0 ? (c->n ? "present-key" : "missing-key(empty)") : v == 1 ? "missing-key" : "NULL-key"; }
#define KD(v) kdesc(c, v)

/* ---- tree */
#define T (c->tree)
static const char *t_put(ctx_t *c, int v) { T->put(T, kname(c, v), "abc", 4); return KD(v); }
static const char *t_putstr(ctx_t *c, int v) { T->putstr(T, kname(c, v), "abc"); return KD(v); }
static const char *t_putstrf(ctx_t *c, int v) { T->putstrf(T, kname(c, v), "%d-%s", 42, "x"); return KD(v); }
static const char *t_putobj(ctx_t *c, int v) { if (v == 3) { T->putobj(T, "k", 0, "abc", 4); return "namesize-0"; } const char *k = kname(c, v); T->putobj(T, k, k ? strlen(k) + 1 : 3, "abc", 4); return KD(v); }
static const char *t_get(ctx_t *c, int v) { size_t sz; void *d = T->get(T, kname(c, v % 3), OUT(&sz), v >= 3); if (d && v >= 3) free(d); snprintf(VD, sizeof VD, "%s,newmem=%d", KD(v % 3), v >= 3); return VD; }
static const char *t_getstr(ctx_t *c, int v) { char *d = T->getstr(T, kname(c, v % 3), v >= 3); if (d && v >= 3) free(d); snprintf(VD, sizeof VD, "%s,newmem=%d", KD(v % 3), v >= 3); return VD; }
static const char *t_getobj(ctx_t *c, int v) { const char *k = kname(c, v % 3); void *d = T->getobj(T, k, k ? strlen(k) + 1 : 3, NULL, v >= 3); if (d && v >= 3) free(d); snprintf(VD, sizeof VD, "%s,newmem=%d", KD(v % 3), v >= 3); return VD; }
static const char *t_remove(ctx_t *c, int v) { T->remove(T, kname(c, v)); return KD(v); }
static const char *t_removeobj(ctx_t *c, int v) { const char *k = kname(c, v); T->removeobj(T, k, k ? strlen(k) + 1 : 3); return KD(v); }
static const char *t_getnext(ctx_t *c, int v) { if (v == 2) { T->getnext(T, NULL, false); return "NULL-cursor"; }
    qtreetbl_obj_t o; memset(&o, 0, sizeof o); int g = 0; while (T->getnext(T, &o, v == 1) && g++ < 100) if (v == 1) { free(o.name); free(o.data); } return v ? "walk,newmem=1" : "walk,newmem=0"; }
static const char *t_find_min(ctx_t *c, int v) { (void)v; size_t s; free(T->find_min(T, OUT(&s))); return c->n ? "nonempty" : "empty"; }
static const char *t_find_max(ctx_t *c, int v) { (void)v; size_t s; free(T->find_max(T, OUT(&s))); return c->n ? "nonempty" : "empty"; }
static const char *t_find_nearest(ctx_t *c, int v) { const char *k = kname(c, v % 3); qtreetbl_obj_t o = T->find_nearest(T, k, k ? strlen(k) + 1 : 3, v >= 3); if (v >= 3) { free(o.name); free(o.data); } snprintf(VD, sizeof VD, "%s,newmem=%d", KD(v % 3), v >= 3); return VD; }
static const char *t_size(ctx_t *c, int v) { (void)v; T->size(T); return "-"; }
static const char *t_clear(ctx_t *c, int v) { (void)v; T->clear(T); return "-"; }
static const char *t_debug(ctx_t *c, int v) { T->debug(T, v ? NULL : c->devnull); return v ? "NULL-stream" : "stream"; }
#undef T
static fn_t F_TREE[] = {{"put", nv3, t_put}, {"putstr", nv3, t_putstr}, {"putstrf", nv2, t_putstrf}, {"putobj", nv4, t_putobj}, {"get", nv6, t_get}, {"getstr", nv6, t_getstr},
    {"getobj", nv6, t_getobj}, {"remove", nv3, t_remove}, {"removeobj", nv3, t_removeobj}, {"getnext", nv3, t_getnext}, {"find_min", nv1, t_find_min}, {"find_max", nv1, t_find_max},
    {"find_nearest", nv6, t_find_nearest}, {"size", nv1, t_size}, {"clear", nv1, t_clear}, {"debug", nv2, t_debug}, {NULL, NULL, NULL}};

/* ---- hash table */
#define H (c->hash)
static const char *h_put(ctx_t *c, int v) { if (v == 3) { H->put(H, "k", NULL, 4); return "NULL-data"; } H->put(H, kname(c, v), "abc", 4); return KD(v); }
static const char *h_putstr(ctx_t *c, int v) { H->putstr(H, kname(c, v), "abc"); return KD(v); }
static const char *h_putstrf(ctx_t *c, int v) { H->putstrf(H, kname(c, v), "%d", 7); return KD(v); }
static const char *h_putint(ctx_t *c, int v) { H->putint(H, kname(c, v), -5); return KD(v); }
static const char *h_get(ctx_t *c, int v) { size_t sz; void *d = H->get(H, kname(c, v % 3), OUT(&sz), v >= 3); if (d && v >= 3) free(d); snprintf(VD, sizeof VD, "%s,newmem=%d", KD(v % 3), v >= 3); return VD; }
static const char *h_getstr(ctx_t *c, int v) { char *d = H->getstr(H, kname(c, v % 3), v >= 3); if (d && v >= 3) free(d); snprintf(VD, sizeof VD, "%s,newmem=%d", KD(v % 3), v >= 3); return VD; }
static const char *h_getint(ctx_t *c, int v) { H->getint(H, kname(c, v)); return KD(v); }
static const char *h_remove(ctx_t *c, int v) { H->remove(H, kname(c, v)); return KD(v); }
static const char *h_getnext(ctx_t *c, int v) { if (v == 2) { H->getnext(H, NULL, false); return "NULL-cursor"; }
    qhashtbl_obj_t o; memset(&o, 0, sizeof o); int g = 0; while (H->getnext(H, &o, v == 1) && g++ < 100) if (v == 1) { free(o.name); free(o.data); } return v ? "walk,newmem=1" : "walk,newmem=0"; }
static const char *h_size(ctx_t *c, int v) { (void)v; H->size(H); return "-"; }
static const char *h_clear(ctx_t *c, int v) { (void)v; H->clear(H); return "-"; }
static const char *h_debug(ctx_t *c, int v) { H->debug(H, v ? NULL : c->devnull); return v ? "NULL-stream" : "stream"; }
#undef H
static fn_t F_HASH[] = {{"put", nv4, h_put}, {"putstr", nv3, h_putstr}, {"putstrf", nv2, h_putstrf}, {"putint", nv3, h_putint}, {"get", nv6, h_get}, {"getstr", nv6, h_getstr},
    {"getint", nv3, h_getint}, {"remove", nv3, h_remove}, {"getnext", nv3, h_getnext}, {"size", nv1, h_size}, {"clear", nv1, h_clear}, {"debug", nv2, h_debug}, {NULL, NULL, NULL}};

/* ---- list table */
#define L (c->ltbl)
static const char *lt_put(ctx_t *c, int v) { if (v == 3) { L->put(L, "k", NULL, 4); return "NULL-data"; } L->put(L, kname(c, v), "abc", 4); return KD(v); }
static const char *lt_putstr(ctx_t *c, int v) { L->putstr(L, kname(c, v), "abc"); return KD(v); }
static const char *lt_putstrf(ctx_t *c, int v) { L->putstrf(L, kname(c, v), "%d", 7); return KD(v); }
static const char *lt_putint(ctx_t *c, int v) { L->putint(L, kname(c, v), -5); return KD(v); }
static const char *lt_get(ctx_t *c, int v) { size_t sz; void *d = L->get(L, kname(c, v % 3), OUT(&sz), v >= 3); if (d && v >= 3) free(d); snprintf(VD, sizeof VD, "%s,newmem=%d", KD(v % 3), v >= 3); return VD; }
static const char *lt_getstr(ctx_t *c, int v) { char *d = L->getstr(L, kname(c, v % 3), v >= 3); if (d && v >= 3) free(d); snprintf(VD, sizeof VD, "%s,newmem=%d", KD(v % 3), v >= 3); return VD; }
static const char *lt_getint(ctx_t *c, int v) { L->getint(L, kname(c, v)); return KD(v); }
static const char *lt_getmulti(ctx_t *c, int v) { size_t n; qlisttbl_data_t *o = L->getmulti(L, kname(c, v % 2), v >= 2, OUT(&n)); if (o) L->freemulti(o); snprintf(VD, sizeof VD, "%s,newmem=%d", KD(v % 2), v >= 2); return VD; }
static const char *lt_remove(ctx_t *c, int v) { L->remove(L, kname(c, v)); return KD(v); }
static const char *lt_removeobj(ctx_t *c, int v) { if (v == 1) { L->removeobj(L, NULL); return "NULL-object"; }
    qlisttbl_obj_t o; memset(&o, 0, sizeof o); if (L->getnext(L, &o, NULL, false)) L->removeobj(L, &o); return c->n ? "object-from-walk" : "empty"; }
static const char *lt_getnext(ctx_t *c, int v) { if (v == 4) { L->getnext(L, NULL, NULL, false); return "NULL-cursor"; }
    qlisttbl_obj_t o; memset(&o, 0, sizeof o); int g = 0; const char *nm = (v & 2) ? key(0) : NULL;
    while (L->getnext(L, &o, nm, v & 1) && g++ < 100) if (v & 1) { free(o.name); free(o.data); }
    snprintf(VD, sizeof VD, "%s-walk,newmem=%d", nm ? "named" : "full", v & 1); return VD; }
static const char *lt_size(ctx_t *c, int v) { (void)v; L->size(L); return "-"; }
static const char *lt_sort(ctx_t *c, int v) { (void)v; L->sort(L); return "-"; }
static const char *lt_clear(ctx_t *c, int v) { (void)v; L->clear(L); return "-"; }
static const char *lt_save(ctx_t *c, int v) { char p[128]; snprintf(p, sizeof p, "h_lock-%d-%d.sav", VF.shard, (int)getpid());
    if (v == 0) { L->save(L, p, '=', true); unlink(p); return "writable-path"; } if (v == 1) { L->save(L, NULL, '=', true); return "NULL-path"; }
    L->save(L, "/nonexistent-dir/x/y.sav", '=', false); return "unwritable-path"; }
static const char *lt_load(ctx_t *c, int v) { char p[128]; snprintf(p, sizeof p, "h_lock-%d-%d.sav", VF.shard, (int)getpid());
    if (v == 0) { FILE *f = fopen(p, "w"); if (f) { fputs("# c\na=1\nb=2%20x\n", f); fclose(f); } L->load(L, p, '=', true); unlink(p); return "existing-file"; }
    L->load(L, "/nonexistent-dir/x/y.sav", '=', true); return "missing-file"; }
static const char *lt_debug(ctx_t *c, int v) { L->debug(L, v ? NULL : c->devnull); return v ? "NULL-stream" : "stream"; }
#undef L
static fn_t F_LISTTBL[] = {{"put", nv4, lt_put}, {"putstr", nv3, lt_putstr}, {"putstrf", nv2, lt_putstrf}, {"putint", nv3, lt_putint}, {"get", nv6, lt_get}, {"getstr", nv6, lt_getstr},
    {"getint", nv3, lt_getint}, {"getmulti", nv4, lt_getmulti}, {"remove", nv3, lt_remove}, {"removeobj", nv2, lt_removeobj}, {"getnext", nv5, lt_getnext}, {"size", nv1, lt_size},
    {"sort", nv1, lt_sort}, {"clear", nv1, lt_clear}, {"save", nv3, lt_save}, {"load", nv2, lt_load}, {"debug", nv2, lt_debug}, {NULL, NULL, NULL}};

/* ---- list */
#define L (c->list)
static const char *l_setsize(ctx_t *c, int v) { L->setsize(L, v ? (size_t)c->n : 0); return v ? "limit=n" : "no-limit"; }
static const char *l_addfirst(ctx_t *c, int v) { if (v == 1) { L->addfirst(L, NULL, 8); return "NULL-data"; } if (v == 2) { L->setsize(L, c->n ? (size_t)c->n : 1); if (!c->n) L->addlast(L, ELEM, 8); L->addfirst(L, ELEM, 8); return "full"; } L->addfirst(L, ELEM, 8); return "ok"; }
static const char *l_addlast(ctx_t *c, int v) { if (v == 1) { L->addlast(L, ELEM, 0); return "size-0"; } if (v == 2) { L->setsize(L, c->n ? (size_t)c->n : 1); if (!c->n) L->addlast(L, ELEM, 8); L->addlast(L, ELEM, 8); return "full"; } L->addlast(L, ELEM, 8); return "ok"; }
static const char *l_addat(ctx_t *c, int v) { int i = idx_of(c, v); L->addat(L, i, ELEM, 8); snprintf(VD, sizeof VD, "insert-index=%d", i); return VD; }
static const char *l_getfirst(ctx_t *c, int v) { size_t s; void *d = L->getfirst(L, OUT(&s), v); if (d && v) free(d); return c->n ? (v ? "nonempty,newmem=1" : "nonempty,newmem=0") : "empty"; }
static const char *l_getlast(ctx_t *c, int v) { size_t s; void *d = L->getlast(L, OUT(&s), v); if (d && v) free(d); return c->n ? (v ? "nonempty,newmem=1" : "nonempty,newmem=0") : "empty"; }
static const char *l_getat(ctx_t *c, int v) { int nm = v >= nvidx(c); int i = idx_of(c, v % nvidx(c)); size_t s; void *d = L->getat(L, i, OUT(&s), nm); if (d && nm) free(d); return idxdesc(c, i); }
static const char *l_popfirst(ctx_t *c, int v) { (void)v; size_t s; free(L->popfirst(L, OUT(&s))); return c->n ? "nonempty" : "empty"; }
static const char *l_poplast(ctx_t *c, int v) { (void)v; size_t s; free(L->poplast(L, OUT(&s))); return c->n ? "nonempty" : "empty"; }
static const char *l_popat(ctx_t *c, int v) { int i = idx_of(c, v); size_t s; free(L->popat(L, i, OUT(&s))); return idxdesc(c, i); }
static const char *l_removefirst(ctx_t *c, int v) { (void)v; L->removefirst(L); return c->n ? "nonempty" : "empty"; }
static const char *l_removelast(ctx_t *c, int v) { (void)v; L->removelast(L); return c->n ? "nonempty" : "empty"; }
static const char *l_removeat(ctx_t *c, int v) { int i = idx_of(c, v); L->removeat(L, i); return idxdesc(c, i); }
static const char *l_getnext(ctx_t *c, int v) { if (v == 2) { L->getnext(L, NULL, false); return "NULL-cursor"; }
    qlist_obj_t o; memset(&o, 0, sizeof o); int g = 0; while (L->getnext(L, &o, v == 1) && g++ < 100) if (v == 1) free(o.data); return v ? "walk,newmem=1" : "walk,newmem=0"; }
static const char *l_reverse(ctx_t *c, int v) { (void)v; L->reverse(L); return "-"; }
static const char *l_clear(ctx_t *c, int v) { (void)v; L->clear(L); return "-"; }
static const char *l_size(ctx_t *c, int v) { (void)v; L->size(L); return "-"; }
static const char *l_datasize(ctx_t *c, int v) { (void)v; L->datasize(L); return "-"; }
static const char *l_toarray(ctx_t *c, int v) { (void)v; size_t s; free(L->toarray(L, OUT(&s))); return c->n ? "nonempty" : "empty"; }
static const char *l_tostring(ctx_t *c, int v) { (void)v; free(L->tostring(L)); return c->n ? "nonempty" : "empty"; }
static const char *l_debug(ctx_t *c, int v) { L->debug(L, v ? NULL : c->devnull); return v ? "NULL-stream" : "stream"; }
#undef L
static fn_t F_LIST[] = {{"setsize", nv2, l_setsize}, {"addfirst", nv3, l_addfirst}, {"addlast", nv3, l_addlast}, {"addat", nvidx, l_addat}, {"getfirst", nv2, l_getfirst}, {"getlast", nv2, l_getlast},
    {"getat", nvidx2, l_getat}, {"popfirst", nv1, l_popfirst}, {"poplast", nv1, l_poplast}, {"popat", nvidx, l_popat}, {"removefirst", nv1, l_removefirst}, {"removelast", nv1, l_removelast},
    {"removeat", nvidx, l_removeat}, {"getnext", nv3, l_getnext}, {"reverse", nv1, l_reverse}, {"clear", nv1, l_clear}, {"size", nv1, l_size}, {"datasize", nv1, l_datasize},
    {"toarray", nv1, l_toarray}, {"tostring", nv1, l_tostring}, {"debug", nv2, l_debug}, {NULL, NULL, NULL}};

/* ---- queue and stack (identical interfaces) */
#define QS_FUNCS(P, TYPE, FIELD) \
static const char *P##_setsize(ctx_t *c, int v) { c->FIELD->setsize(c->FIELD, v ? (size_t)c->n : 0); return v ? "limit=n" : "no-limit"; } \
static const char *P##_push(ctx_t *c, int v) { if (v == 1) { c->FIELD->push(c->FIELD, NULL, 8); return "NULL-data"; } if (v == 2) { c->FIELD->setsize(c->FIELD, c->n ? (size_t)c->n : 1); if (!c->n) c->FIELD->push(c->FIELD, ELEM, 8); c->FIELD->push(c->FIELD, ELEM, 8); return "full"; } c->FIELD->push(c->FIELD, ELEM, 8); return "ok"; } \
static const char *P##_pushstr(ctx_t *c, int v) { if (v == 1) { c->FIELD->pushstr(c->FIELD, NULL); return "NULL-string"; } if (v == 2) { c->FIELD->setsize(c->FIELD, c->n ? (size_t)c->n : 1); if (!c->n) c->FIELD->push(c->FIELD, ELEM, 8); c->FIELD->pushstr(c->FIELD, "e000001"); return "full"; } c->FIELD->pushstr(c->FIELD, "e000001"); return "ok"; } \
static const char *P##_pushint(ctx_t *c, int v) { if (v == 1) { c->FIELD->setsize(c->FIELD, c->n ? (size_t)c->n : 1); if (!c->n) c->FIELD->push(c->FIELD, ELEM, 8); c->FIELD->pushint(c->FIELD, 9); return "full"; } c->FIELD->pushint(c->FIELD, 9); return "ok"; } \
static const char *P##_pop(ctx_t *c, int v) { (void)v; size_t s; free(c->FIELD->pop(c->FIELD, OUT(&s))); return c->n ? "nonempty" : "empty"; } \
static const char *P##_popstr(ctx_t *c, int v) { (void)v; free(c->FIELD->popstr(c->FIELD)); return c->n ? "nonempty" : "empty"; } \
static const char *P##_popint(ctx_t *c, int v) { (void)v; c->FIELD->popint(c->FIELD); return c->n ? "nonempty" : "empty"; } \
static const char *P##_popat(ctx_t *c, int v) { int i = idx_of(c, v); size_t s; free(c->FIELD->popat(c->FIELD, i, OUT(&s))); return idxdesc(c, i); } \
static const char *P##_get(ctx_t *c, int v) { size_t s; void *d = c->FIELD->get(c->FIELD, OUT(&s), v); if (d && v) free(d); return c->n ? (v ? "nonempty,newmem=1" : "nonempty,newmem=0") : "empty"; } \
static const char *P##_getstr(ctx_t *c, int v) { (void)v; free(c->FIELD->getstr(c->FIELD)); return c->n ? "nonempty" : "empty"; } \
static const char *P##_getint(ctx_t *c, int v) { (void)v; c->FIELD->getint(c->FIELD); return c->n ? "nonempty" : "empty"; } \
static const char *P##_getat(ctx_t *c, int v) { int nm = v >= nvidx(c); int i = idx_of(c, v % nvidx(c)); size_t s; void *d = c->FIELD->getat(c->FIELD, i, OUT(&s), nm); if (d && nm) free(d); return idxdesc(c, i); } \
static const char *P##_size(ctx_t *c, int v) { (void)v; c->FIELD->size(c->FIELD); return "-"; } \
static const char *P##_clear(ctx_t *c, int v) { (void)v; c->FIELD->clear(c->FIELD); return "-"; } \
static const char *P##_debug(ctx_t *c, int v) { c->FIELD->debug(c->FIELD, v ? NULL : c->devnull); return v ? "NULL-stream" : "stream"; } \
static fn_t F_##TYPE[] = {{"setsize", nv2, P##_setsize}, {"push", nv3, P##_push}, {"pushstr", nv3, P##_pushstr}, {"pushint", nv2, P##_pushint}, {"pop", nv1, P##_pop}, {"popstr", nv1, P##_popstr}, \
    {"popint", nv1, P##_popint}, {"popat", nvidx, P##_popat}, {"get", nv2, P##_get}, {"getstr", nv1, P##_getstr}, {"getint", nv1, P##_getint}, {"getat", nvidx2, P##_getat}, \
    {"size", nv1, P##_size}, {"clear", nv1, P##_clear}, {"debug", nv2, P##_debug}, {NULL, NULL, NULL}};
QS_FUNCS(q, QUEUE, queue)
QS_FUNCS(s, STACK, stack)

/* ---- grow */
#define G (c->grow)
static const char *g_add(ctx_t *c, int v) { if (v == 1) { G->add(G, NULL, 8); return "NULL-data"; } G->add(G, ELEM, 8); return "ok"; }
static const char *g_addstr(ctx_t *c, int v) { if (v == 1) { G->addstr(G, ""); return "empty-string"; } G->addstr(G, "abc"); return "ok"; }
static const char *g_addstrf(ctx_t *c, int v) { (void)v; G->addstrf(G, "%d-%s", 1, "x"); return "ok"; }
static const char *g_size(ctx_t *c, int v) { (void)v; G->size(G); return "-"; }
static const char *g_datasize(ctx_t *c, int v) { (void)v; G->datasize(G); return "-"; }
static const char *g_toarray(ctx_t *c, int v) { (void)v; size_t s; free(G->toarray(G, OUT(&s))); return c->n ? "nonempty" : "empty"; }
static const char *g_tostring(ctx_t *c, int v) { (void)v; free(G->tostring(G)); return c->n ? "nonempty" : "empty"; }
static const char *g_clear(ctx_t *c, int v) { (void)v; G->clear(G); return "-"; }
static const char *g_debug(ctx_t *c, int v) { G->debug(G, v ? NULL : c->devnull); return v ? "NULL-stream" : "stream"; }
#undef G
static fn_t F_GROW[] = {{"add", nv2, g_add}, {"addstr", nv2, g_addstr}, {"addstrf", nv1, g_addstrf}, {"size", nv1, g_size}, {"datasize", nv1, g_datasize}, {"toarray", nv1, g_toarray},
    {"tostring", nv1, g_tostring}, {"clear", nv1, g_clear}, {"debug", nv2, g_debug}, {NULL, NULL, NULL}};

/* ---- vector */
#define V (c->vec)
static const char *v_addfirst(ctx_t *c, int v) { if (v) { V->addfirst(V, NULL); return "NULL-data"; } V->addfirst(V, ELEM); return "ok"; }
static const char *v_addlast(ctx_t *c, int v) { if (v) { V->addlast(V, NULL); return "NULL-data"; } V->addlast(V, ELEM); return "ok"; }
static const char *v_addat(ctx_t *c, int v) { int i = idx_of(c, v); V->addat(V, i, ELEM); snprintf(VD, sizeof VD, "insert-index=%d", i); return VD; }
static const char *v_getfirst(ctx_t *c, int v) { void *d = V->getfirst(V, v); if (d && v) free(d); return c->n ? (v ? "nonempty,newmem=1" : "nonempty,newmem=0") : "empty"; }
static const char *v_getlast(ctx_t *c, int v) { void *d = V->getlast(V, v); if (d && v) free(d); return c->n ? (v ? "nonempty,newmem=1" : "nonempty,newmem=0") : "empty"; }
static const char *v_getat(ctx_t *c, int v) { int nm = v >= nvidx(c); int i = idx_of(c, v % nvidx(c)); void *d = V->getat(V, i, nm); if (d && nm) free(d); return idxdesc(c, i); }
static const char *v_setfirst(ctx_t *c, int v) { (void)v; V->setfirst(V, ELEM); return c->n ? "nonempty" : "empty"; }
static const char *v_setlast(ctx_t *c, int v) { (void)v; V->setlast(V, ELEM); return c->n ? "nonempty" : "empty"; }
static const char *v_setat(ctx_t *c, int v) { int i = idx_of(c, v); V->setat(V, i, ELEM); return idxdesc(c, i); }
static const char *v_popfirst(ctx_t *c, int v) { (void)v; free(V->popfirst(V)); return c->n ? "nonempty" : "empty"; }
static const char *v_poplast(ctx_t *c, int v) { (void)v; free(V->poplast(V)); return c->n ? "nonempty" : "empty"; }
static const char *v_popat(ctx_t *c, int v) { int i = idx_of(c, v); free(V->popat(V, i)); return idxdesc(c, i); }
static const char *v_removefirst(ctx_t *c, int v) { (void)v; V->removefirst(V); return c->n ? "nonempty" : "empty"; }
static const char *v_removelast(ctx_t *c, int v) { (void)v; V->removelast(V); return c->n ? "nonempty" : "empty"; }
static const char *v_removeat(ctx_t *c, int v) { int i = idx_of(c, v); V->removeat(V, i); return idxdesc(c, i); }
static const char *v_size(ctx_t *c, int v) { (void)v; V->size(V); return "-"; }
static const char *v_resize(ctx_t *c, int v) { V->resize(V, v == 0 ? 0 : v == 1 ? (size_t)c->n + 1 : (size_t)c->n + 9); return v == 0 ? "to-0" : v == 1 ? "to-n+1" : "to-n+9"; }
static const char *v_toarray(ctx_t *c, int v) { (void)v; size_t s; free(V->toarray(V, OUT(&s))); return c->n ? "nonempty" : "empty"; }
static const char *v_clear(ctx_t *c, int v) { (void)v; V->clear(V); return "-"; }
static const char *v_debug(ctx_t *c, int v) { V->debug(V, v ? NULL : c->devnull); return v ? "NULL-stream" : "stream"; }
static const char *v_reverse(ctx_t *c, int v) { (void)v; V->reverse(V); return "-"; }
static const char *v_getnext(ctx_t *c, int v) { if (v == 2) { V->getnext(V, NULL, false); return "NULL-cursor"; }
    qvector_obj_t o; memset(&o, 0, sizeof o); int g = 0; while (V->getnext(V, &o, v == 1) && g++ < 100) if (v == 1) free(o.data); return v ? "walk,newmem=1" : "walk,newmem=0"; }
#undef V
static fn_t F_VECTOR[] = {{"addfirst", nv2, v_addfirst}, {"addlast", nv2, v_addlast}, {"addat", nvidx, v_addat}, {"getfirst", nv2, v_getfirst}, {"getlast", nv2, v_getlast}, {"getat", nvidx2, v_getat},
    {"setfirst", nv1, v_setfirst}, {"setlast", nv1, v_setlast}, {"setat", nvidx, v_setat}, {"popfirst", nv1, v_popfirst}, {"poplast", nv1, v_poplast}, {"popat", nvidx, v_popat},
    {"removefirst", nv1, v_removefirst}, {"removelast", nv1, v_removelast}, {"removeat", nvidx, v_removeat}, {"size", nv1, v_size}, {"resize", nv3, v_resize}, {"toarray", nv1, v_toarray},
    {"clear", nv1, v_clear}, {"debug", nv2, v_debug}, {"reverse", nv1, v_reverse}, {"getnext", nv3, v_getnext}, {NULL, NULL, NULL}};

/* ---- log */
#define LG (c->log)
/* variants 1/2: a rotation is due at this write; in variant 1 the new file can not be opened (its directory is gone) */
static void lg_rotation_due(ctx_t *c, int v) {
    if (!v) return;
    if (v == 3) { /* the log file sits on a full device: fprintf() into the stdio buffer works, the flush does not */
        FILE *f = fopen("/dev/full", "w"); if (f) { if (LG->fp) fclose(LG->fp); LG->fp = f; vf_count("qlog_writes_to_a_full_device", 1); } return; }
    LG->rotateinterval = 1; LG->nextrotate = 1;
    if (v == 1) snprintf(LG->filepathfmt, sizeof(LG->filepathfmt), "/nonexistent-dir-h_lock/x-%%S.log");
    else snprintf(LG->filepathfmt, sizeof(LG->filepathfmt), "%s.rotated", c->path);
}
static const char *lg_write(ctx_t *c, int v) { lg_rotation_due(c, v); LG->write(LG, "line"); if (v == 2) { char p[200]; snprintf(p, sizeof p, "%s.rotated", c->path); unlink(p); } return v == 0 ? "ok" : v == 1 ? "rotation-due-open-fails" : v == 2 ? "rotation-due" : "device-full"; }
static const char *lg_writef(ctx_t *c, int v) { lg_rotation_due(c, v); LG->writef(LG, "%d %s", 3, "x"); if (v == 2) { char p[200]; snprintf(p, sizeof p, "%s.rotated", c->path); unlink(p); } return v == 0 ? "ok" : v == 1 ? "rotation-due-open-fails" : v == 2 ? "rotation-due" : "device-full"; }
static const char *lg_flush(ctx_t *c, int v) { (void)v; LG->flush(LG); return "ok"; }
static const char *lg_duplicate(ctx_t *c, int v) { LG->duplicate(LG, v ? NULL : c->devnull, v == 0); return v ? "NULL-stream" : "stream"; }
#undef LG
static fn_t F_LOG[] = {{"write", nv4, lg_write}, {"writef", nv4, lg_writef}, {"flush", nv1, lg_flush}, {"duplicate", nv2, lg_duplicate}, {NULL, NULL, NULL}};

static fn_t *FTAB[NKINDS] = {F_TREE, F_HASH, F_LISTTBL, F_LIST, F_QUEUE, F_STACK, F_GROW, F_VECTOR, F_LOG};

/* ---- probe thread -------------------------------------------------------------------- */
static void *probe_main(void *m) { int r = __real_pthread_mutex_trylock((pthread_mutex_t *)m); if (r == 0) __real_pthread_mutex_unlock((pthread_mutex_t *)m); return (void *)(intptr_t)r; }
static bool probe_free(void *m) {
    pthread_t t; void *rv = NULL;
    if (pthread_create(&t, NULL, probe_main, m)) { fprintf(stderr, "h_lock: cannot create probe thread\n"); exit(2); }
    pthread_join(t, &rv);
    vf_count("probe_trylocks", 1);
    return (intptr_t)rv == 0;
}

/* one monitored execution; fail_k: 0 none, k>0: fail the k-th allocation of the call; all_after: all from k on.
 * returns the number of allocations the call made (for the dry run) */
static long run_one(int kind, fn_t *f, int v, int n, int depth, long fail_k, bool all_after) {
    ctx_t c;
    if (!make(&c, kind, n)) { fprintf(stderr, "h_lock: constructor failed\n"); exit(2); }
    { int nv = f->nvar(&c); if (v >= 2 * nv) { destroy(&c); return -1; } NULLOUT = v >= nv; v %= nv; }
    for (int d = 0; d < depth; d++) lock_it(&c);
    int d0 = vf_lock_depth(c.mutex);
    long a0 = vf_alloc_calls;
    vf_fail_at = fail_k && !all_after ? a0 + fail_k : 0;
    vf_fail_from = fail_k && all_after ? a0 + fail_k : 0;
    vf_cpu_arm_prop("C15", f->name, 5000);       /* a crash/hang inside the call is not a lock-balance verdict */
    errno = vf_entry_errno_for((uint64_t)vf_cur_case * 0x9E3779B97F4A7C15ULL + (uint64_t)v * 131 + (uint64_t)fail_k * 7 + (uint64_t)depth + VF.seed);   /* an exit path chosen by a stale errno must unlock too */
    const char *vd = f->call(&c, v);
    vf_cpu_disarm();
    vf_fail_at = vf_fail_from = 0;
    long allocs = vf_alloc_calls - a0;
    int d1 = vf_lock_depth(c.mutex);
    char cls[200]; snprintf(cls, sizeof cls, "%s.%s[%s%s]%s", KNAME[kind], f->name, vd, NULLOUT ? ",out=NULL" : "", fail_k ? (all_after ? ",alloc-fail-from-k" : ",alloc-fail-at-k") : "");
    vf_log("%s n=%d entry-depth=%d fail_k=%ld -> depth %d -> %d", cls, n, depth, fail_k, d0, d1);
    vf_count("evaluations", 1);
    if (fail_k) vf_count("fault_positions_injected", 1);
    char fq[96]; snprintf(fq, sizeof fq, "%s.%s", KNAME[kind], f->name);
    vf_name("functions_covered", fq);
    vf_distinct("distinct", vf_hash(cls, strlen(cls), VF_H0) ^ (uint64_t)(n * 4 + depth));
    vf_distinct("function_outcome_classes", vf_hash(cls, strlen(cls), VF_H0));
    bool leaked = false;
    if (d1 != d0) {
        const char *kc = vd; const char *par = strchr(vd, '(');
        if (!strncmp(vd, "index=", 6) && par) kc = par;           /* key by index class, not by index value */
        char key[200]; snprintf(key, sizeof key, "lock-depth:%s.%s:%s", KNAME[kind], f->name, fail_k ? "alloc-failure" : kc);
        for (char *p = key; *p; p++) if (*p == ' ') *p = '_';
        vf_viol("C14", key, "%s returned with lock depth %d, entry depth was %d (state n=%d)", cls, d1, d0, n);
        leaked = true;
        for (int k = d1; k > d0; k--) unlock_it(&c);           /* release the surplus so that the run continues */
    } else if (d0 == 0 && !probe_free(c.mutex)) {
        char key[200]; snprintf(key, sizeof key, "lock-held:%s.%s", KNAME[kind], f->name);
        vf_viol("C14", key, "%s: another thread's trylock fails after the call returned (n=%d)", cls, n);
        leaked = true;
    }
    if (!leaked) vf_count("calls_lock_balanced", 1);
    for (int d = 0; d < depth; d++) unlock_it(&c);
    if (vf_lock_depth(c.mutex) != 0) { for (int k = vf_lock_depth(c.mutex); k > 0; k--) unlock_it(&c); vf_lock_depth_reset(c.mutex); }
    destroy(&c);
    return allocs;
}

/* ---- contention scenario: the waiter exhausts its lock-wait budget (Q_MUTEX_ENTER's forced-unlock fallback runs
 * several times) while the holder sits inside its own lock()...unlock(); when the holder's unlock() returns its depth
 * must be back to 0 and the waiter's operation must then complete within a bounded number of further attempts ------- */
static volatile int waiter_done;
static void *waiter_main(void *arg) {
    ctx_t *c = arg;
    FTAB[c->kind][0].call(c, 0);          /* the first mutating operation of the kind (put / addfirst / push / add / write) */
    waiter_done = 1;
    return NULL;
}
static void contention(long caseno) {
    for (int kind = 0; kind < NKINDS; kind++) for (int nest = 1; nest <= 2; nest++) {
        if (kind == K_LOG) continue;                 /* no public lock() */
        ctx_t c;
        if (!make(&c, kind, 3)) exit(2);
        vf_case_begin(caseno, "contention: %s holder nests lock() %d time(s), waiter spins past the lock-wait budget, then unlock()", KNAME[kind], nest);
        for (int d = 0; d < nest; d++) lock_it(&c);
        long busy0 = vf_trylock_busy;
        waiter_done = 0; vf_spin_abort = 0;
        pthread_t t; pthread_create(&t, NULL, waiter_main, &c);
        long spins = 0;
        while (vf_trylock_busy - busy0 < 12000 && spins++ < 200000000L) sched_yield();     /* > 2 x MAX_MUTEX_LOCK_WAIT failed attempts */
        vf_log("waiter failed %ld trylocks while the holder kept the lock", vf_trylock_busy - busy0);
        bool reached = vf_trylock_busy - busy0 >= 12000;
        for (int d = 0; d < nest; d++) unlock_it(&c);
        int depth = vf_lock_depth(c.mutex);
        vf_count("evaluations", 1); vf_count("contention_scenarios", 1);
        vf_name("functions_covered", kind == K_QUEUE || kind == K_STACK || kind == K_GROW ? "qlist.lock" : (kind == K_TREE ? "qtreetbl.lock" : kind == K_HASH ? "qhashtbl.lock" : kind == K_LISTTBL ? "qlisttbl.lock" : kind == K_LIST ? "qlist.lock" : "qvector.lock"));
        vf_distinct("distinct", 0x51000000ULL + (uint64_t)(kind * 4 + nest));
        if (!reached) { vf_count("contention_not_reached", 1); }
        if (depth != 0) {
            char key[120]; snprintf(key, sizeof key, "lock-depth:%s.unlock:after-contention", KNAME[kind]);
            vf_viol("C14", key, "%s: the holder's unlock() returned with lock depth %d after a waiter had exhausted its lock-wait budget", KNAME[kind], depth);
            vf_spin_abort = 1; pthread_join(t, NULL); vf_spin_abort = 0;
            vf_lock_unregister_all();
            continue;                                  /* the mutex is still locked: the container can not be destroyed */
        }
        long busy1 = vf_trylock_busy; spins = 0;
        while (!waiter_done && vf_trylock_busy - busy1 < 30000 && spins++ < 2000000000L) sched_yield();
        if (!waiter_done) {
            char key[120]; snprintf(key, sizeof key, "lock-held:%s.unlock:after-contention", KNAME[kind]);
            vf_viol("C14", key, "%s: after the holder's unlock() the waiter failed %ld more trylocks and its operation never completed", KNAME[kind], vf_trylock_busy - busy1);
            vf_spin_abort = 1; pthread_join(t, NULL); vf_spin_abort = 0; vf_lock_unregister_all(); continue;
        }
        pthread_join(t, NULL);
        vf_count("calls_lock_balanced", 1);
        destroy(&c);
    }
    vf_sample("contention: holder inside lock()..unlock() (nesting 1 and 2) while a waiter fails > 12000 trylocks (forced-unlock fallback of the lock macro), for tree/hash/listtbl/list/queue/stack/grow/vector");
}

int main(int argc, char **argv) {
    vf_init(argc, argv, "h_lock");
    if (strcmp(VF.prop, "C14")) { fprintf(stderr, "h_lock: unsupported property %s\n", VF.prop); return 2; }
    DEVNULL = fopen("/dev/null", "w");
    vf_usleep_fast = 1;
    static const int STATES[5] = {0, 1, 2, 7, 40};
    int nstates = 5;
    long caseno = 0;
    for (int kind = 0; kind < NKINDS; kind++)
        for (fn_t *f = FTAB[kind]; f->name; f++, caseno++) {
            if (!vf_mine(caseno)) continue;
            vf_case_begin(caseno, "%s.%s: every variant x states {0,1,2,7,40} x entry depth {0,1} x allocation failure at k=1..K (single / all-subsequent)", KNAME[kind], f->name);
            for (int si = 0; si < nstates; si++) for (int depth = 0; depth < 2; depth++) {
                if (kind == K_LOG && depth) continue;          /* qlog has no public lock() */
                for (int v = 0;; v++) {
                    long K = run_one(kind, f, v, STATES[si], depth, 0, false);
                    if (K < 0) break;
                    vf_max("max_allocations_in_one_call", K);
                    if (K > 12) K = 12;
                    for (long k = 1; k <= K; k++) { run_one(kind, f, v, STATES[si], depth, k, false); run_one(kind, f, v, STATES[si], depth, k, true); }
                }
            }
            if (caseno % 16 == 0) vf_sample("%s.%s: variants executed from states n=0,1,2,7,40 at entry depth 0 and 1, then with the k-th allocation failing for every k", KNAME[kind], f->name);
        }
    if (vf_mine(caseno)) contention(caseno);
    return vf_finish() ? 1 : 0;
}
