/* fuzz_target.c - libFuzzer entry points for C17 (thorough tier).  One binary per -DFUZZ_TARGET=n:
 * 0 qurl_decode 1 qbase64_decode 2 qhex_decode 3 qparse_queries 4 qconfig_parse_str 5 qaconf parse.
 * Inputs are copied into exactly-sized heap buffers; the INI target skips inputs on which the documented
 * ${..} rewriting itself has no fixpoint (the recorded known finding), so that every other hang is reported.
 */
#define _GNU_SOURCE
#include <stdint.h>
#include <stdlib.h>
#include <string.h>
#include <stdio.h>
#include <unistd.h>
#include <sys/mman.h>
#include "qlibc.h"
#include "qlibcext.h"
#define hm_alloc(n) malloc((n) ? (n) : 1)
#define hm_free(p) free(p)
static void *vf_xdup(const void *p, size_t n) { void *q = malloc(n ? n : 1); if (n) memcpy(q, p, n); return q; }
static void *vf_xrealloc(void *p, size_t n) { return realloc(p, n ? n : 1); }
#include "ini_ref.h"

static char *cb(qaconf_cbdata_t *d, void *ud) { (void)ud; volatile size_t t = 0; for (int i = 0; i < d->argc; i++) t += strlen(d->argv[i]); return NULL; }
static qaconf_option_t OPTS[] = {
    {"a", QAC_TAKEALL, cb, 2, QAC_SECTION_ALL}, {"a1", QAC_TAKE2 | QAC_A1_INT | QAC_A2_BOOL, cb, 0, QAC_SECTION_ALL}, {"Domain", QAC_TAKE_STR, cb, 4, QAC_SECTION_ROOT},
    {"Host", QAC_TAKE_STR, cb, 8, 4}, {"TTL", QAC_TAKE_INT, cb, 0, 4 | 8}, {"Listen", QAC_TAKEALL | QAC_AA_FLOAT, cb, 0, QAC_SECTION_ALL}, {"IPSEC", QAC_TAKE_BOOL, NULL, 0, QAC_SECTION_ALL}, QAC_OPTION_END};

int LLVMFuzzerTestOneInput(const uint8_t *data, size_t size) {
    size_t n = 0; while (n < size && data[n]) n++;            /* NUL-terminated input: cut at the first NUL */
    char *buf = malloc(n + 1); memcpy(buf, data, n); buf[n] = 0;
#if FUZZ_TARGET == 0
    size_t r = qurl_decode(buf); if (r > n || buf[r]) abort();
#elif FUZZ_TARGET == 1
    size_t r = qbase64_decode(buf); if (r > n || buf[r]) abort();
#elif FUZZ_TARGET == 2
    size_t r = qhex_decode(buf); if (r > n || buf[r]) abort();
#elif FUZZ_TARGET == 3
    int cnt = 0; qlisttbl_t *t = qparse_queries(NULL, buf, '=', '&', &cnt); if (t) t->free(t);
#elif FUZZ_TARGET == 4
    if (!(strstr(buf, "${") && ini_diverges(buf, '='))) { qlisttbl_t *t = qconfig_parse_str(NULL, buf, '='); if (t) t->free(t); }
#else
    static int fd = -1; static char path[64];
    if (fd < 0) { fd = memfd_create("fuzz", 0); snprintf(path, sizeof path, "/proc/self/fd/%d", fd); }
    if (ftruncate(fd, 0) == 0 && pwrite(fd, data, size, 0) == (ssize_t)size) {
        qaconf_t *c = qaconf(); c->addoptions(c, OPTS); if (size & 1) c->setdefhandler(c, cb);
        c->parse(c, path, (uint8_t)(size & 3)); c->free(c); }
#endif
    free(buf);
    return 0;
}
