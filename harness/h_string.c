/* h_string.c - C19: string utilities compute exactly their documented function with bounded writes.
 * Reference definitions are written independently below; every destination lives in an exactly-sized heap
 * block (asan build) or between guard bytes (bounded copies, where the contract is smaller than the block).
 */
#define _GNU_SOURCE
#include <stdlib.h>
#include <string.h>
#include "qlibc.h"
#include "vfc.h"

static rng_t R;
static bool is_blank(unsigned char c) { return c == ' ' || c == '\t' || c == '\r' || c == '\n'; }
static char *xs(const char *s) { return vf_xdup(s, strlen(s) + 1); }   /* exact-size heap string */

static void bad(const char *fn, const char *cls, const char *in, const char *fmt, ...) __attribute__((format(printf, 4, 5)));
static void bad(const char *fn, const char *cls, const char *in, const char *fmt, ...) {
    char msg[500]; va_list ap; va_start(ap, fmt); vsnprintf(msg, sizeof msg, fmt, ap); va_end(ap);
    char key[100]; snprintf(key, sizeof key, "%s:%s", fn, cls);
    vf_log("%s input %s", fn, vf_hex(in, strlen(in)));
    vf_viol("C19", key, "%s(%s): %s", fn, vf_hex(in, strlen(in)), msg);
}
#define TICK(fn) do { vf_count("evaluations", 1); vf_count("calls:" fn, 1); } while (0)

/* ---- trims ------------------------------------------------------------------------------------ */
static void t_trims(const char *s) {
    size_t n = strlen(s), a = 0, b = n;
    while (a < n && is_blank((unsigned char)s[a])) a++;
    while (b > a && is_blank((unsigned char)s[b - 1])) b--;
    char *x = xs(s); char *r = qstrtrim(x);
    if (r != x || strlen(x) != b - a || memcmp(x, s + a, b - a)) bad("qstrtrim", "wrong", s, "result %s", vf_hex(x, strlen(x)));
    hm_free(x); TICK("qstrtrim");
    x = xs(s); r = qstrtrim_head(x);
    if (r != x || strcmp(x, s + a)) bad("qstrtrim_head", "wrong", s, "result %s", vf_hex(x, strlen(x)));
    hm_free(x); TICK("qstrtrim_head");
    size_t bt = n; while (bt > 0 && is_blank((unsigned char)s[bt - 1])) bt--;
    /* the tail trim is given one byte of slack in front: for an all-blank string the scan starts at str-1+len */
    char *blk = hm_alloc(n + 2); blk[0] = 'x'; x = blk + 1; memcpy(x, s, n + 1); r = qstrtrim_tail(x);
    if (r != x || strlen(x) != bt || memcmp(x, s, bt) || blk[0] != 'x') bad("qstrtrim_tail", "wrong", s, "result %s", vf_hex(x, strlen(x)));
    hm_free(blk); TICK("qstrtrim_tail");
}
/* ---- unchar / rev / upper / lower ---------------------------------------------------------------- */
static void t_misc(const char *s) {
    size_t n = strlen(s);
    char HT[5][2] = {{'"', '"'}, {'a', 'B'}, {':', ':'}, {(char)0xAB, (char)0xBB}, {n ? s[0] : 'x', n ? s[n - 1] : 'x'}};   /* the last pair always matches when n >= 2, whatever the bytes are */
    for (int k = 0; k < 5; k++) {
        char *x = xs(s); char *r = qstrunchar(x, HT[k][0], HT[k][1]);
        bool match = n >= 2 && s[0] == HT[k][0] && s[n - 1] == HT[k][1];
        if (match ? (r != x || strlen(x) != n - 2 || memcmp(x, s + 1, n - 2)) : (r != NULL || strcmp(x, s))) bad("qstrunchar", "wrong", s, "head=%c tail=%c result %s", HT[k][0], HT[k][1], vf_hex(x, strlen(x)));
        hm_free(x); TICK("qstrunchar");
    }
    char *x = xs(s); qstrrev(x); bool ok = strlen(x) == n; for (size_t i = 0; i < n && ok; i++) if (x[i] != s[n - 1 - i]) ok = false;
    if (!ok) bad("qstrrev", "wrong", s, "result %s", vf_hex(x, strlen(x)));
    hm_free(x); TICK("qstrrev");
    x = xs(s); qstrupper(x); ok = strlen(x) == n; for (size_t i = 0; i < n && ok; i++) { char e = (s[i] >= 'a' && s[i] <= 'z') ? (char)(s[i] - 32) : s[i]; if (x[i] != e) ok = false; }
    if (!ok) bad("qstrupper", "wrong", s, "result %s", vf_hex(x, strlen(x)));
    hm_free(x); TICK("qstrupper");
    x = xs(s); qstrlower(x); ok = strlen(x) == n; for (size_t i = 0; i < n && ok; i++) { char e = (s[i] >= 'A' && s[i] <= 'Z') ? (char)(s[i] + 32) : s[i]; if (x[i] != e) ok = false; }
    if (!ok) bad("qstrlower", "wrong", s, "result %s", vf_hex(x, strlen(x)));
    hm_free(x); TICK("qstrlower");
    void *d = qmemdup(s, n + 1); if (!d || memcmp(d, s, n + 1) || d == (void *)s) bad("qmemdup", "wrong", s, "copy differs"); free(d); TICK("qmemdup");
}
/* ---- bounded copies ------------------------------------------------------------------------------ */
static void t_copy(const char *s) {
    size_t n = strlen(s);
    for (size_t size = 1; size <= n + 2; size++) {
        /* destination of `size` bytes inside a block with guard bytes on both sides */
        unsigned char *blk = hm_alloc(size + 16); memset(blk, 0xC3, size + 16); char *dst = (char *)blk + 8;
        char *src = xs(s);
        char *r = qstrcpy(dst, size, src);
        size_t m = n < size - 1 ? n : size - 1;
        bool ok = r == dst && dst[m] == 0 && !memcmp(dst, s, m);
        for (int g = 0; g < 8 && ok; g++) if (blk[g] != 0xC3 || blk[8 + size + (size_t)g] != 0xC3) ok = false;
        if (!ok) bad("qstrcpy", "wrong-or-out-of-bounds", s, "size=%zu result %s", size, vf_hex(dst, m + 1));
        TICK("qstrcpy");
        for (size_t nb = 0; nb <= n; nb++) {
            memset(blk, 0xC3, size + 16);
            r = qstrncpy(dst, size, src, nb);
            size_t mm = nb < size - 1 ? nb : size - 1;
            ok = r == dst && dst[mm] == 0 && !memcmp(dst, s, mm);
            for (int g = 0; g < 8 && ok; g++) if (blk[g] != 0xC3 || blk[8 + size + (size_t)g] != 0xC3) ok = false;
            if (!ok) bad("qstrncpy", "wrong-or-out-of-bounds", s, "size=%zu nbytes=%zu", size, nb);
            TICK("qstrncpy");
        }
        hm_free(src);
        /* overlapping source: copy a string onto itself shifted by one */
        if (n >= 2 && size == n + 1) { char *o = hm_alloc(n + 2); memcpy(o, s, n + 1); qstrcpy(o, n + 1, o + 1); if (strcmp(o, s + 1)) bad("qstrcpy", "overlap", s, "overlapping copy gives %s", vf_hex(o, strlen(o))); hm_free(o); TICK("qstrcpy"); }
        /* ... and the other direction (documented: "allows overlap between src and dst"): destination 1..3 bytes above the source inside one buffer */
        if (n >= 2 && size == n + 1) for (size_t sh = 1; sh <= 3; sh++) { char *o = hm_alloc(n + 1 + sh + 1); memcpy(o, s, n + 1); memset(o + n + 1, 0x5A, sh + 1);
            qstrcpy(o + sh, n + 1, o); if (strcmp(o + sh, s) || (unsigned char)o[n + 1 + sh] != 0x5A) bad("qstrcpy", "overlap", s, "copy to src+%zu gives %s", sh, vf_hex(o + sh, strlen(o + sh))); hm_free(o); TICK("qstrcpy");
            o = hm_alloc(n + 1 + sh + 1); memcpy(o, s, n + 1); memset(o + n + 1, 0x5A, sh + 1); size_t nb = n - 1;
            qstrncpy(o + sh, n + 1, o, nb); if (strlen(o + sh) != nb || memcmp(o + sh, s, nb)) bad("qstrncpy", "overlap", s, "copy of %zu bytes to src+%zu gives %s", nb, sh, vf_hex(o + sh, strlen(o + sh))); hm_free(o); TICK("qstrncpy"); }
        hm_free(blk);
    }
}
/* ---- line reader ----------------------------------------------------------------------------------- */
static void t_gets(const char *s) {
    size_t n = strlen(s);
    /* big enough buffer: every call returns exactly the next line without CR/LF */
    { char *text = xs(s); char *off = text; char *buf = hm_alloc(n + 2); size_t pos = 0; int guard = 0;
      while (1) {
          char *r = qstrgets(buf, n + 2, &off);
          if (pos >= n) { if (r != NULL) bad("qstrgets", "no-end", s, "returned a line after the text was consumed"); break; }
          if (!r) { bad("qstrgets", "early-end", s, "returned NULL at offset %zu of %zu", pos, n); break; }
          char want[64]; size_t w = 0, p = pos; while (p < n && s[p] != '\n') { if (s[p] != '\r') want[w++] = s[p]; p++; } want[w] = 0; if (p < n) p++;
          if (strcmp(buf, want) || off != text + p) { bad("qstrgets", "wrong-line", s, "line at offset %zu is %s, expected %s (advance %zu, expected %zu)", pos, vf_hex(buf, strlen(buf)), vf_hex(want, w), (size_t)(off - text), p); break; }
          pos = p; if (++guard > 40) break; }
      hm_free(text); hm_free(buf); TICK("qstrgets"); }
    /* small buffers: pieces concatenate to the text without CR and LF; never more than size-1 chars per piece */
    for (size_t size = 2; size <= 4 && size <= n + 1; size++) {
        char *text = xs(s); char *off = text; char *buf = hm_alloc(size); char cat[64]; size_t c = 0; int guard = 0; bool ok = true;
        while (1) { char *r = qstrgets(buf, size, &off); if (!r) break; size_t l = strlen(buf); if (l > size - 1 || c + l > 60) { ok = false; break; } memcpy(cat + c, buf, l); c += l; if (++guard > 80) { ok = false; break; } }
        char want[64]; size_t w = 0; for (size_t i = 0; i < n; i++) if (s[i] != '\r' && s[i] != '\n') want[w++] = s[i];
        if (!ok || c != w || memcmp(cat, want, w)) bad("qstrgets", "small-buffer", s, "size=%zu pieces concatenate to %s", size, vf_hex(cat, c));
        hm_free(text); hm_free(buf); TICK("qstrgets");
    }
}
/* ---- tokenizer --------------------------------------------------------------------------------------- */
static void t_tok(const char *s, const char *delims) {
    size_t n = strlen(s);
    char *x = xs(s); int off = 0; char rebuilt[64]; size_t rl = 0; int guard = 0; char stop = 0;
    /* reference field list (all fields up to the last delimiter, plus the rest if non-empty) */
    char ref[16][16]; int nref = 0; { size_t st = 0; for (size_t i = 0; i <= n; i++) if (i == n || (s[i] && strchr(delims, s[i]))) { if (i == n && st == n) break; size_t l = i - st; memcpy(ref[nref], s + st, l); ref[nref][l] = 0; nref++; st = i + 1; } }
    int k = 0; bool ok = true, extra = false;
    while (1) {
        char *t = qstrtok(x, delims, &stop, &off);
        if (!t) break;
        size_t l = strlen(t);
        if (k == nref && l == 0 && n > 0 && strchr(delims, s[n - 1]) && !extra) { extra = true; continue; }   /* a final empty field after a trailing delimiter is accepted either way */
        if (k >= nref || strcmp(t, ref[k])) { ok = false; bad("qstrtok", "wrong-field", s, "delims=%s field %d is %s", vf_hex(delims, strlen(delims)), k, vf_hex(t, l)); break; }
        memcpy(rebuilt + rl, t, l); rl += l; if (stop) { if (!strchr(delims, stop)) { ok = false; bad("qstrtok", "stop-char", s, "reported stop char 0x%02x is not a delimiter", (unsigned char)stop); break; } rebuilt[rl++] = stop; }
        k++; if (++guard > 20) { ok = false; bad("qstrtok", "endless", s, "does not end"); break; }
    }
    if (ok && (rl != n || memcmp(rebuilt, s, n))) bad("qstrtok", "reconstruction", s, "delims=%s tokens and stop characters re-assemble to %s", vf_hex(delims, strlen(delims)), vf_hex(rebuilt, rl));
    hm_free(x); TICK("qstrtok");
    char *cs = xs(s), *cd = xs(delims);
    qlist_t *l = qstrtokenizer(cs, cd);
    if (!l) bad("qstrtokenizer", "null", s, "returned NULL");
    else { bool same = l->size(l) == (size_t)k + (extra ? 1 : 0); qlist_obj_t o; memset(&o, 0, sizeof o); int i = 0;
        while (same && l->getnext(l, &o, false)) { if (i >= nref || strcmp(o.data, ref[i])) same = false; i++; }
        if (!same || strcmp(cs, s)) bad("qstrtokenizer", "wrong", s, "delims=%s token list differs from the qstrtok sequence (or the input was modified)", vf_hex(delims, strlen(delims)));
        l->free(l); }
    hm_free(cs); hm_free(cd); TICK("qstrtokenizer");
}
/* one qstrtok step checked exactly (only issued while the offset is inside the string, where the result does not depend on how a trailing
 * delimiter is treated): token = bytes up to the next delimiter, stop = that delimiter or 0, offset behind it */
static bool tok_step(char *work, const char *orig, size_t n, const char *delims_ref, const char *delims_arg, int *off, const char *what) {
    int p = *off; size_t q = (size_t)p; while (q < n && !strchr(delims_ref, orig[q])) q++;
    char stop = 'X'; char *t = qstrtok(work, delims_arg, &stop, off); TICK("qstrtok");
    size_t l = t ? strlen(t) : 0;
    if (!t || t != work + p || l != q - (size_t)p || memcmp(t, orig + p, l) || stop != (q < n ? orig[q] : 0) || *off != (int)(q < n ? q + 1 : n)) {
        bad("qstrtok", what, orig, "delims=%s from offset %d: token %s stop 0x%02x new offset %d; expected %s stop 0x%02x offset %zu", vf_hex(delims_ref, strlen(delims_ref)), p,
            t ? vf_hex(t, l) : "NULL", (unsigned char)stop, *off, vf_hex(orig + p, q - (size_t)p), (unsigned char)(q < n ? orig[q] : 0), q < n ? q + 1 : n);
        return false; }
    return true;
}
/* the delimiter argument lives in ONE mutable buffer whose contents change between calls (a strtok-style change of the delimiter set in the
 * middle of a string; two strings tokenised alternately with their own delimiter sets written into the same scratch buffer): the result of a
 * call depends on the bytes of its arguments only, never on an earlier call that happened to pass the same addresses */
static void t_tok_shared(const char *s, const char *d1, const char *d2) {
    static char DB[16]; static char PREV[64] = "b;a, a";
    size_t n = strlen(s), pn = strlen(PREV);
    if (n > 0) {   /* (1) delimiter set changes after the first field */
        char *w = xs(s); int off = 0; int guard = 0; bool ok = true;
        strcpy(DB, d1); ok = tok_step(w, s, n, d1, DB, &off, "shared-delimiter-buffer");
        strcpy(DB, d2); while (ok && (size_t)off < n && ++guard < 70) ok = tok_step(w, s, n, d2, DB, &off, "shared-delimiter-buffer");
        hm_free(w);
    }
    if (n > 0 && pn > 0) {   /* (2) two strings advanced alternately */
        char *w1 = xs(s), *w2 = xs(PREV); int o1 = 0, o2 = 0, guard = 0; bool ok = true;
        while (ok && ((size_t)o1 < n || (size_t)o2 < pn) && ++guard < 140) {
            if ((size_t)o1 < n) { strcpy(DB, d1); ok = tok_step(w1, s, n, d1, DB, &o1, "alternating-strings"); }
            if (ok && (size_t)o2 < pn) { strcpy(DB, d2); ok = tok_step(w2, PREV, pn, d2, DB, &o2, "alternating-strings"); }
        }
        hm_free(w1); hm_free(w2);
    }
    if (n < sizeof PREV) strcpy(PREV, s);
    vf_count("tokenizer_shared_buffer_scenarios", 1);
}
/* ---- replace -------------------------------------------------------------------------------------------- */
static void t_replace(const char *src, const char *tok, const char *word) {
    size_t n = strlen(src), tl = strlen(tok), wl = strlen(word);
    char want_t[256], want_s[256]; size_t a = 0, b = 0;
    for (size_t i = 0; i < n; i++) { if (strchr(tok, src[i])) { memcpy(want_t + a, word, wl); a += wl; } else want_t[a++] = src[i]; } want_t[a] = 0;
    for (size_t i = 0; i < n; ) { if (i + tl <= n && !memcmp(src + i, tok, tl)) { memcpy(want_s + b, word, wl); b += wl; i += tl; } else want_s[b++] = src[i++]; } want_s[b] = 0;
    const char *modes[4] = {"tn", "tr", "sn", "sr"};
    for (int m = 0; m < 4; m++) {
        const char *want = m < 2 ? want_t : want_s; size_t wn = m < 2 ? a : b;
        size_t cap = (n > wn ? n : wn) + 1;                      /* in-place contract: room for the longer of input and result */
        char *buf = hm_alloc(cap); memcpy(buf, src, n + 1);
        char *ct = xs(tok), *cw = xs(word);
        char *r = qstrreplace(modes[m], buf, ct, cw);
        if (!r) bad("qstrreplace", "null", src, "mode %s returned NULL", modes[m]);
        else if (strcmp(r, want)) bad("qstrreplace", m < 2 ? "token-mode" : "string-mode", src, "mode %s tok=%s word=%s gives %s, expected %s", modes[m], vf_hex(tok, tl), vf_hex(word, wl), vf_hex(r, strlen(r)), vf_hex(want, wn));
        else if ((m & 1) ? r != buf : (r == buf || strcmp(buf, src))) bad("qstrreplace", "memory-mode", src, "mode %s: wrong buffer returned or the source was modified", modes[m]);
        if (r && !(m & 1)) free(r);
        if (strcmp(ct, tok) || strcmp(cw, word)) bad("qstrreplace", "args-modified", src, "token or word argument modified");
        hm_free(buf); hm_free(ct); hm_free(cw); TICK("qstrreplace");
    }
}
/* long inputs: the result size of qstrreplace is a product of lengths (sizes 2^31 and 2^32 are products of quite ordinary lengths) */
static void t_replace_large(size_t srclen, size_t nmatch, const char *tok, size_t wordlen, int mode) {
    static const char *modes[4] = {"tn", "tr", "sn", "sr"};
    size_t tl = strlen(tok);
    char *word = hm_alloc(wordlen + 1); memset(word, 'w', wordlen); word[wordlen] = 0;
    size_t wn = srclen - nmatch * tl + nmatch * wordlen, cap = (srclen > wn ? srclen : wn) + 1;
    char *src = hm_alloc(cap), *want = hm_alloc(wn + 1); memset(src, 'x', srclen); src[srclen] = 0;
    /* matches spread over the source, the first one at the very start, the last one at the very end */
    size_t w = 0, at = 0;
    for (size_t k = 0; k < nmatch; k++) { size_t pos = nmatch > 1 ? k * (srclen - tl) / (nmatch - 1) : 0; if (pos < at) pos = at; memcpy(src + pos, tok, tl); at = pos + tl; }
    for (size_t i = 0; i < srclen; ) { if (i + tl <= srclen && !memcmp(src + i, tok, tl)) { memset(want + w, 'w', wordlen); w += wordlen; i += tl; } else want[w++] = src[i++]; } want[w] = 0;
    char *ct = xs(tok);
    char *r = qstrreplace(modes[mode], src, ct, word);
    char in[80]; snprintf(in, sizeof in, "len%zu-matches%zu-word%zu", srclen, nmatch, wordlen);
    if (!r) bad("qstrreplace", "null-large", in, "mode %s returned NULL for a source of %zu bytes with %zu match(es) and a word of %zu bytes (result %zu bytes)", modes[mode], srclen, nmatch, wordlen, w);
    else if (strlen(r) != w || memcmp(r, want, w)) bad("qstrreplace", "large", in, "mode %s: result of %zu bytes differs from the reference (%zu bytes)", modes[mode], strlen(r), w);
    else if ((mode & 1) && r != src) bad("qstrreplace", "memory-mode", in, "mode %s did not return the source buffer", modes[mode]);
    if (r && !(mode & 1)) free(r);
    hm_free(ct); hm_free(word); hm_free(src); hm_free(want); TICK("qstrreplace"); vf_count("replace_large_inputs", 1);
}
static void t_between(const char *s) {
    static const char *ST[] = {":", "a", "\""}, *EN[] = {":", "B", "\""};
    for (int i = 0; i < 3; i++) {
        char *x = xs(s); char *r = qstrdup_between(x, ST[i], EN[i]);
        const char *p = strstr(s, ST[i]); const char *e = p ? strstr(p + strlen(ST[i]), EN[i]) : NULL;
        if (e ? (!r || strlen(r) != (size_t)(e - p - (long)strlen(ST[i])) || memcmp(r, p + strlen(ST[i]), strlen(r))) : r != NULL) bad("qstrdup_between", "wrong", s, "start=%s end=%s", ST[i], EN[i]);
        free(r); hm_free(x); TICK("qstrdup_between");
    }
}

/* enumerate all strings of length <= maxlen over alphabet; the case number = index; shards by index */
typedef void (*strfn)(const char *);
/* formatted duplicate / append: the result is exactly what vsnprintf would produce, for every length incl. the internal buffer sizes 1024*2^k */
static void t_format(size_t len) {
    char *src = hm_alloc(len + 1); for (size_t i = 0; i < len; i++) src[i] = (char)('A' + (i * 7 + len) % 26); src[len] = 0;
    vf_log("qstrdupf/qstrcatf with a %zu-byte argument", len);
    char *d = qstrdupf("%s", src);
    if (!d) bad("qstrdupf", "null", "", "returned NULL for a %zu-byte result", len);
    else { if (strlen(d) != len || memcmp(d, src, len)) bad("qstrdupf", "wrong", "", "result of length %zu for \"%%s\" with a %zu-byte argument (tail \"%.8s\")", strlen(d), len, d + (strlen(d) > 8 ? strlen(d) - 8 : 0)); free(d); }
    if (len >= 5) { d = qstrdupf("<%s|%d>", src + 5, 42);       /* total length == len */
        char *e = hm_alloc(len + 1); snprintf(e, len + 1, "<%s|%d>", src + 5, 42);
        if (!d || strcmp(d, e)) bad("qstrdupf", "wrong", "", "\"<%%s|%%d>\" with total length %zu: got length %zu", len, d ? strlen(d) : (size_t)0);
        free(d); hm_free(e); }
    static const char *PRE[] = {"", "x", "prefix:"};
    for (int p = 0; p < 3; p++) { size_t pl = strlen(PRE[p]); char *buf = hm_alloc(pl + len + 1 + 4); memcpy(buf, PRE[p], pl + 1); memset(buf + pl + len + 1, 0x5A, 4);   /* exact room + 4 guard bytes */
        char *r = qstrcatf(buf, "%s", src);
        if (r != buf) bad("qstrcatf", "return", PRE[p], "did not return the destination");
        else if (strlen(buf) != pl + len || memcmp(buf, PRE[p], pl) || memcmp(buf + pl, src, len)) bad("qstrcatf", "wrong", PRE[p], "appended %zu bytes instead of %zu", strlen(buf) - pl, len);
        for (int g = 0; g < 4; g++) if ((unsigned char)buf[pl + len + 1 + g] != 0x5A) { bad("qstrcatf", "overrun", PRE[p], "wrote beyond the room the result needs"); break; }
        hm_free(buf); }
    vf_count("evaluations", 1); vf_count("format_lengths", 1); vf_distinct("distinct", VF_H0 + 4242 + len);
    hm_free(src);
}

static long enumerate(const char *alpha, int maxlen, strfn f, long base, const char *what) {
    size_t k = strlen(alpha); long idx = 0; char s[16];
    for (int len = 0; len <= maxlen; len++) {
        long total = 1; for (int i = 0; i < len; i++) total *= (long)k;
        for (long v = 0; v < total; v++, idx++) {
            if (!vf_mine(base + idx)) continue;
            long t = v; for (int i = len - 1; i >= 0; i--) { s[i] = alpha[t % (long)k]; t /= (long)k; } s[len] = 0;
            vf_cur_case = base + idx; vf_cur_op = 0;
            f(s);
            vf_distinct("distinct", vf_hash(s, (size_t)len, vf_hash(what, strlen(what), VF_H0)));
        }
    }
    return idx;
}
static const char *CUR_DELIMS;
static const char *OTHER_DELIMS;
static void tok_adapter(const char *s) { t_tok(s, CUR_DELIMS); t_tok_shared(s, CUR_DELIMS, OTHER_DELIMS); }

int main(int argc, char **argv) {
    vf_init(argc, argv, "h_string");
    if (strcmp(VF.prop, "C19")) { fprintf(stderr, "h_string: unsupported property %s\n", VF.prop); return 2; }
    int L = (int)vf_arg_long("maxlen", 5);
    long base = 0, n;
    n = enumerate(" \t\r\na\x80\v\f", L, t_trims, base, "trims");      /* VT and FF are NOT blanks for the trims: isspace() would strip them */ vf_count("exhaustive_strings_trims", vf_mine(base) ? n : 0); base += 100000000;
    n = enumerate("aB\":z\xff ", L > 6 ? 6 : L, t_misc, base, "misc"); base += 100000000;
    n = enumerate("aB \x80", L > 6 ? 6 : L, t_copy, base, "copy"); base += 100000000;
    n = enumerate("a\r\n b", L > 6 ? 6 : L, t_gets, base, "gets"); base += 100000000;
    n = enumerate("a:\"B", L > 6 ? 6 : L, t_between, base, "between"); base += 100000000;
    static const char *DSETS[] = {",", ",;", ",; ", ";"};
    for (int d = 0; d < 4; d++) { CUR_DELIMS = DSETS[d]; OTHER_DELIMS = DSETS[(d + 1 + (d & 1)) % 4]; n = enumerate("a,; b", L > 6 ? 6 : L, tok_adapter, base, DSETS[d]); base += 100000000; }
    /* replace: all (src, token, word) triples over {a,b,:} up to lengths (ls, 3 or 2, 3 or 2) */
    { int ls = L >= 7 ? 5 : 4, lt = L >= 7 ? 3 : 2, lw = 3; const char *A = "ab:"; char src[8], tok[8], word[8]; long idx = 0;   /* words up to 3: a word longer than a 2-byte token exercises the size bound of string mode */
      for (int l1 = 0; l1 <= ls; l1++) { long t1 = 1; for (int i = 0; i < l1; i++) t1 *= 3;
        for (long v1 = 0; v1 < t1; v1++) { long t = v1; for (int i = l1 - 1; i >= 0; i--) { src[i] = A[t % 3]; t /= 3; } src[l1] = 0;
          for (int l2 = 1; l2 <= lt; l2++) { long t2 = 1; for (int i = 0; i < l2; i++) t2 *= 3;
            for (long v2 = 0; v2 < t2; v2++) { t = v2; for (int i = l2 - 1; i >= 0; i--) { tok[i] = A[t % 3]; t /= 3; } tok[l2] = 0;
              for (int l3 = 0; l3 <= lw; l3++) { long t3 = 1; for (int i = 0; i < l3; i++) t3 *= 3;
                for (long v3 = 0; v3 < t3; v3++, idx++) { if (!vf_mine(base + idx)) continue; t = v3; for (int i = l3 - 1; i >= 0; i--) { word[i] = A[t % 3]; t /= 3; } word[l3] = 0;
                  vf_cur_case = base + idx; vf_cur_op = 0; t_replace(src, tok, word);
                  vf_distinct("distinct", vf_hash(word, (size_t)l3, vf_hash(tok, (size_t)l2, vf_hash(src, (size_t)l1, VF_H0 + 99)))); } } } } } }
      vf_count("replace_triples", vf_mine(base) ? idx : 0); base += 100000000; }
    /* case conversion / reversal / unquoting over every byte value: 1..255 ascending, descending, and each byte between two letters */
    { long idx = 0; char all[600];
      for (int v = 0; v < 3; v++, idx++) { if (!vf_mine(base + idx)) continue; int n = 0; if (v == 0) for (int b = 1; b < 256; b++) all[n++] = (char)b; else if (v == 1) for (int b = 255; b >= 1; b--) all[n++] = (char)b; else for (int b = 1; b < 256; b++) { all[n++] = 'a'; all[n++] = (char)b; } all[n] = 0;
        vf_case_begin(base + idx, "all byte values, layout %d", v); t_misc(all); vf_count("all_byte_value_strings", 1); }
      base += 100000000; }
    /* formatted duplicate / append: every length 0..80 and 2^k-3 .. 2^k+3 for k = 8..17 (the growth steps of the internal buffer) */
    { long idx = 0; for (size_t l = 0; l <= 80; l++, idx++) if (vf_mine(base + idx)) { vf_case_begin(base + idx, "format length %zu", l); t_format(l); }
      for (int k = 8; k <= (L >= 7 ? 17 : 14); k++) for (long dlt = -3; dlt <= 3; dlt++, idx++) if (vf_mine(base + idx)) { size_t l = (size_t)((1L << k) + dlt); vf_case_begin(base + idx, "format length %zu", l); t_format(l); }
      base += 100000000; }
    /* qstrreplace on long inputs: (source length, matches, token, word length); products of the lengths around 2^31 and 2^32 */
    { static const struct { size_t sl, nm; const char *tok; size_t wl; } LG[] = {
          {5000, 10, "a", 3000}, {5000, 10, "${a}", 3000}, {4000, 10, "a", 3000}, {2500, 3, "${a}", 2500}, {4095, 1, "a", 2}, {4094, 2, "ab", 3}, {4095, 4095, "a", 2}, {300, 100, "a", 64}, {70000, 3, "a", 100}, {65537, 2, "a", 65537}, {46341, 1, "a", 46341}, {65536, 1, "ab", 65536},
          {(4u << 20), 1, "${a}", 4096}, {(1u << 20), 2, "${a}", 8192}, {300000, 2000, "ab", 7}, {100000, 50000, "a", 0}, {100000, 25000, "ab", 1} };
      long idx = 0;
      for (size_t i = 0; i < sizeof LG / sizeof LG[0]; i++) for (int m = 0; m < 4; m++, idx++) { if (!vf_mine(base + idx)) continue;
          if ((m < 2) != (strlen(LG[i].tok) == 1)) continue;      /* one-character tokens exercise the token mode, longer ones the string mode */
          vf_case_begin(base + idx, "qstrreplace mode %d on %zu bytes, %zu match(es), word of %zu bytes", m, LG[i].sl, LG[i].nm, LG[i].wl); t_replace_large(LG[i].sl, LG[i].nm, LG[i].tok, LG[i].wl, m); }
      base += 100000000; }
    /* random longer inputs */
    long nrand = vf_arg_long("random", 4000);
    for (long i = 0; i < nrand; i++) {
        if (!vf_mine(base + i)) continue;
        rng_seed(&R, VF.seed, (uint64_t)(base + i)); vf_case_begin(base + i, "random long input");
        size_t len = 8 + rng_below(&R, rng_chance(&R, 1, 10) ? 2040 : 50); char *s = hm_alloc(len + 1);
        static const char AL[] = " \t\r\naB\":,;xyz\x80\xff\v\f\x01\x7f\xa0";
        for (size_t k = 0; k < len; k++) s[k] = AL[rng_below(&R, sizeof AL - 1)]; s[len] = 0;
        t_trims(s); t_misc(s);
        if (len <= 60) { t_gets(s); t_copy(s); }
        if (len <= 60) { char tok[4] = {AL[4 + rng_below(&R, 10)], 0, 0, 0}; if (rng_chance(&R, 1, 2)) tok[1] = AL[4 + rng_below(&R, 10)]; char word[6] = {0}; size_t wl = rng_below(&R, 5); for (size_t k = 0; k < wl; k++) word[k] = AL[4 + rng_below(&R, 8)]; t_replace(s, tok, word); }
        vf_count("random_inputs", 1); vf_max("max_input_length", (long)len); vf_distinct("distinct", vf_hash(s, len, VF_H0 + 7));
        hm_free(s);
        vf_san_poll();
    }
    if (VF.shard == 0) { vf_sample("exhaustive over all strings of length <= %d: trims over {space,tab,CR,LF,a,0x80}; unchar/rev/upper/lower/memdup over {a,B,\",:,z,0xff,space}; qstrcpy/qstrncpy for every size 1..n+2 and nbytes 0..n inside guard bytes; qstrgets with big and small buffers; qstrtok/qstrtokenizer for delimiter sets , ,; ,;space ;", L);
                         vf_sample("replace: all (src, token, word) triples over {a,b,:} with non-empty token, modes tn/tr/sn/sr, in-place buffers sized max(|src|,|result|)+1"); }
    (void)n;
    return vf_finish() ? 1 : 0;
}
