/* h_hashtbl.c - hash table (qhashtbl) under the monitors of C05 (and C11 in the asan build).
 * Reference model: association array indexed by universe key id.
 * Structural walker: every chain node sits in slot murmur3_32(name) % range (hash
 * recomputed by the independent reference), stored hash correct, no duplicate names,
 * num == node count.
 */
#define _GNU_SOURCE
#include <stdlib.h>
#include <string.h>
#include <errno.h>
#include <inttypes.h>
#include "qlibc.h"
#include "vfc.h"
/* the print helpers (debug()) run on real contents now and then: C11 covers what they read */
static FILE *DEVNULL; static unsigned long DBGCTR;
#define DEBUG_NOW() (((++DBGCTR) % 61) == 0 && (DEVNULL || (DEVNULL = fopen("/dev/null", "w"))))

#include "ref_hash.h"

static rng_t R;
static qhashtbl_t *T;
static size_t RANGE;           /* effective range */
static int NU;
static char **UK;              /* universe of NUL-terminated keys */
static unsigned char **MV; static size_t *MVL; static bool *MP; static int MN;   /* model */
static bool abandon;
static long ledger_mark;
static int P;
static long valctr;
static uint64_t USALT;

static bool judge(const char *prop, const char *key, const char *fmt, ...) __attribute__((format(printf, 3, 4)));
static bool judge(const char *prop, const char *key, const char *fmt, ...) {
    char msg[600]; va_list ap; va_start(ap, fmt); vsnprintf(msg, sizeof msg, fmt, ap); va_end(ap);
    abandon = true;
    if (!strcmp(prop, VF.prop)) { vf_viol(prop, key, "%s", msg); return true; }
    vf_count("other_property_oracle_mismatch", 1);
    return true;
}

typedef struct { unsigned char *base, *p; size_t n; } cbuf_t;
static cbuf_t cb_make(const void *src, size_t n, unsigned off) {   /* off: the copy starts at this offset inside its block (0..3): equal keys reach the library through differently aligned pointers */
    cbuf_t c;
    c.base = hm_alloc(n + off); c.p = c.base + off; c.n = n;
    if (n) memcpy(c.p, src, n);
    return c;
}
static void cb_drop(cbuf_t *c) { memset(c->base, 0xA5, c->n + (size_t)(c->p - c->base)); hm_free(c->base); c->base = c->p = NULL; }

/* pairs of distinct keys with identical full 32-bit MurmurHash3 values (birthday search over "user<n>" with the
 * reference hash): they share a chain under EVERY range and are told apart only by the name comparison */
static char COLL[64][2][16]; static int NCOLL;
static int cmp_u64(const void *a, const void *b) { uint64_t x = *(const uint64_t *)a, y = *(const uint64_t *)b; return x < y ? -1 : x > y; }
static void find_collisions(void) {
    int N = 700000; uint64_t *h = hm_alloc(sizeof(uint64_t) * (size_t)N); char b[16];
    for (int i = 0; i < N; i++) { int l = snprintf(b, sizeof b, "user%d", i); h[i] = (uint64_t)ref_murmur3_32(b, (size_t)l) << 32 | (uint32_t)i; }
    qsort(h, (size_t)N, sizeof(uint64_t), cmp_u64);
    for (int i = 0; i + 1 < N && NCOLL < 64; i++) if ((h[i] >> 32) == (h[i + 1] >> 32)) { snprintf(COLL[NCOLL][0], 16, "user%u", (unsigned)(h[i] & 0xffffffffu)); snprintf(COLL[NCOLL][1], 16, "user%u", (unsigned)(h[i + 1] & 0xffffffffu)); NCOLL++; i++; }
    hm_free(h);
    vf_max("full_hash_collision_pairs_available", NCOLL);
}
static void universe_make(int n, int style) {
    UK = hm_alloc(sizeof(char *) * (size_t)n); NU = 0;
    if (style == 4) {   /* colliding pairs first, the rest ordinary keys */
        int first = NCOLL ? (int)rng_below(&R, (uint32_t)NCOLL) : 0;
        for (int k = 0; k < NCOLL && NU + 1 < n && k < 6; k++) { int c = (first + k) % NCOLL; UK[NU++] = vf_xdup(COLL[c][0], strlen(COLL[c][0]) + 1); UK[NU++] = vf_xdup(COLL[c][1], strlen(COLL[c][1]) + 1); }
        style = 0;
    }
    while (NU < n) {
        char b[48]; int len;
        switch (style) {
        case 0: len = snprintf(b, sizeof b, "k%d", NU + 100); break;                          /* short distinct */
        case 1: len = (int)rng_below(&R, 12); for (int i = 0; i < len; i++) b[i] = (char)(1 + rng_below(&R, 255)); b[len] = 0; break;  /* arbitrary bytes, may be empty */
        case 2: len = snprintf(b, sizeof b, "%s%d", "commonprefix-commonprefix-", NU); break;
        default: len = 1 + (int)rng_below(&R, 3); for (int i = 0; i < len; i++) b[i] = (char)('a' + rng_below(&R, 3)); b[len] = 0; break;
        }
        bool dup = false;
        for (int i = 0; i < NU; i++) if (!strcmp(UK[i], b)) dup = true;
        if (dup) { if (style == 3 && NU >= 30) style = 0; continue; }
        UK[NU++] = vf_xdup(b, (size_t)len + 1);
    }
    MV = hm_alloc(sizeof(*MV) * (size_t)n); MVL = hm_alloc(sizeof(*MVL) * (size_t)n); MP = hm_alloc(sizeof(*MP) * (size_t)n);
    memset(MP, 0, sizeof(*MP) * (size_t)n); memset(MV, 0, sizeof(*MV) * (size_t)n); MN = 0;
    USALT = VF_H0; for (int i = 0; i < NU && i < 6; i++) USALT = vf_hash(UK[i], strlen(UK[i]), USALT);
}
static void universe_free(void) {
    for (int i = 0; i < NU; i++) { hm_free(UK[i]); if (MP[i]) hm_free(MV[i]); }
    hm_free(UK); hm_free(MV); hm_free(MVL); hm_free(MP); NU = 0;
}
static void m_put(int id, const void *v, size_t vl) {
    if (MP[id]) hm_free(MV[id]); else MN++;
    MV[id] = vf_xdup(v, vl); MVL[id] = vl; MP[id] = true;
}
static bool m_remove(int id) { if (!MP[id]) return false; hm_free(MV[id]); MV[id] = NULL; MP[id] = false; MN--; return true; }
static void m_clear(void) { for (int i = 0; i < NU; i++) if (MP[i]) m_remove(i); }
static int key_id(const char *name) { for (int i = 0; i < NU; i++) if (!strcmp(UK[i], name)) return i; return -1; }

/* ---- structural walker -------------------------------------------------- */
static uint64_t structure_check(void) {
    size_t count = 0; uint64_t shape = VF_H0; long maxchain = 0;
    unsigned char *seen = hm_alloc((size_t)NU); memset(seen, 0, (size_t)NU);
    vf_count("structure_checks", 1);
    for (size_t s = 0; s < T->range; s++) {
        long chain = 0;
        for (qhashtbl_obj_t *o = T->slots[s]; o; o = o->next) {
            if (++chain > NU + 2) { judge("C05", "chain-cycle", "chain of slot %zu longer than the universe", s); goto out; }
            if (!o->name || !o->data) { judge("C05", "node-null", "node with NULL name/data in slot %zu", s); goto out; }
            uint32_t h = ref_murmur3_32(o->name, strlen(o->name));
            if (o->hash != h) { judge("C05", "stored-hash", "node %s stores hash %08x, reference %08x", vf_hex(o->name, strlen(o->name)), o->hash, h); goto out; }
            if (h % T->range != s) { judge("C05", "wrong-slot", "node %s sits in slot %zu, belongs to %zu", vf_hex(o->name, strlen(o->name)), s, (size_t)(h % T->range)); goto out; }
            int id = key_id(o->name);
            if (id < 0) { judge("C05", "foreign-node", "node name %s is not a universe key", vf_hex(o->name, strlen(o->name))); goto out; }
            if (seen[id]) { judge("C05", "duplicate-node", "key %d appears twice", id); goto out; }
            seen[id] = 1; count++;
            shape = shape * 1099511628211ULL ^ (uint64_t)(id + 1);
        }
        shape = shape * 1099511628211ULL ^ 0xfefe;
        if (chain > maxchain) maxchain = chain;
    }
    if (count != T->num) judge("C05", "node-count", "walker counted %zu nodes, num=%zu", count, T->num);
    vf_max("max_chain_length", maxchain);
out:
    hm_free(seen);
    return shape;
}


/* optional out-parameters are NULL in one call out of four; the variable is preset to what the callee would have stored */
static size_t *optout(size_t *p, size_t expect) { if (rng_chance(&R, 1, 4)) { *p = expect; vf_count("calls_with_null_out_parameter", 1); return NULL; } return p; }
static void content_check(void) {
    { static unsigned long pc; if (T->qmutex && (++pc % 29) == 0 && !vf_lock_probe(T->qmutex)) { judge("C05", "unusable-for-other-threads", "a second thread can not take the lock of the (thread-safe) table: an earlier call returned with it held"); return; } }
    if (DEBUG_NOW()) { T->debug(T, DEVNULL); vf_count("debug_prints", 1); }
    vf_count("content_compares", 1);
    if (T->size(T) != (size_t)MN) { judge("C05", "size", "size()=%zu model=%d", T->size(T), MN); return; }
    for (int id = 0; id < NU; id++) {
        size_t sz = 4242; void *d = T->get(T, UK[id], &sz, false);
        if (MP[id]) { if (!d) { judge("C05", "key-lost", "key %d vanished", id); return; }
                      if (sz != MVL[id] || memcmp(d, MV[id], sz)) { judge("C05", "value-changed", "key %d holds wrong value", id); return; } }
        else if (d) { judge("C05", "phantom-key", "absent key %d found", id); return; }
    }
}

static unsigned char VBUF[2400];
static size_t gen_value(bool as_string) {
    size_t l; uint32_t c = rng_below(&R, 10);
    if (c < 5) l = 1 + rng_below(&R, 12); else if (c < 9) l = 1 + rng_below(&R, 80); else l = 200 + rng_below(&R, 101);
    if (as_string && rng_chance(&R, 1, 40)) l = (size_t[]){1023, 1024, 1025, 1500, 2048}[rng_below(&R, 5)];     /* the formatted put functions retry with a larger buffer from 1024 bytes on */
    valctr++;
    for (size_t i = 0; i < l; i++) VBUF[i] = as_string ? (unsigned char)(1 + rng_below(&R, 255)) : (rng_chance(&R, 1, 4) ? 0 : (unsigned char)rng_below(&R, 256));
    VBUF[0] = (unsigned char)(valctr | 1); if (l > 2) VBUF[1] = (unsigned char)((valctr >> 7) | 1);
    if (as_string) { VBUF[l] = 0; return l + 1; }
    return l;
}

static void table_new(size_t range) {
    ledger_mark = vf_ledger_mark();
    { static unsigned long tctr; tctr++; T = qhashtbl(range, (tctr & 1) ? QHASHTBL_THREADSAFE : 0); }   /* every other table is thread-safe: a call that keeps the lock is seen by the probe in content_check */
    if (!T) { fprintf(stderr, "qhashtbl() failed\n"); exit(2); }
    RANGE = T->range;
    abandon = false;
}
/* a second, unrelated table used in between (every other history): the same key strings, other values, a slow walk. Nothing the library
 * remembers across calls may be shared between two tables; the decoy's own results are not judged, the main table's oracles see the damage. */
static qhashtbl_t *DECOY; static qhashtbl_obj_t DECOY_CUR;
static void decoy_new(size_t range) { DECOY = qhashtbl(range, 0); memset(&DECOY_CUR, 0, sizeof DECOY_CUR); if (DECOY) vf_count("histories_with_a_second_table_used_in_between", 1); }
static void decoy_step(void) {
    if (!DECOY || !NU) return;
    int e = errno; const char *k = UK[rng_below(&R, (uint32_t)NU)]; uint32_t c = rng_below(&R, 5); char v[24]; size_t vl = 1 + rng_below(&R, sizeof v - 1); memset(v, 'D' + (int)c, vl); v[vl] = 0;
    if (c <= 1) { DECOY->put(DECOY, k, v, vl + 1); memset(&DECOY_CUR, 0, sizeof DECOY_CUR); }
    else if (c == 2) { DECOY->remove(DECOY, k); memset(&DECOY_CUR, 0, sizeof DECOY_CUR); }
    else if (c == 3) { size_t sz; void *d = DECOY->get(DECOY, k, &sz, true); free(d); }
    else if (!DECOY->getnext(DECOY, &DECOY_CUR, false)) memset(&DECOY_CUR, 0, sizeof DECOY_CUR);
    vf_count("operations_on_the_second_table", 1); errno = e;
}
static void table_free(void) {
    if (DECOY) { DECOY->free(DECOY); DECOY = NULL; }
    T->free(T); T = NULL;
    long live = vf_ledger_live_since(ledger_mark);
    vf_count("containers_released", 1);
    if (live) judge("C11", "leak:qhashtbl", "%ld block(s) still live after free()", live);
    else vf_count("containers_released_leak_free", 1);
    if (vf_foreign_frees) { judge("C11", "bad-free:qhashtbl", "free() of a pointer the library never allocated / already freed"); vf_foreign_frees = 0; }
}

static const int64_t INTS[] = {0, 1, -1, INT64_MIN, INT64_MAX, 42, -9000000000LL};
static void op_put(int id) {
    int api = (int)rng_below(&R, 8);   /* 0-3 put, 4 putstr, 5 putstrf, 6 putint, 7 put */
    cbuf_t kb = cb_make(UK[id], strlen(UK[id]) + 1, rng_below(&R, 4));
    bool r; size_t vl; bool wasnew = !MP[id];
    if (api == 6) {
        int64_t v = rng_chance(&R, 1, 2) ? INTS[rng_below(&R, 7)] : (int64_t)rng_next(&R);
        vf_log("putint k%d=%s %" PRId64, id, vf_hex(UK[id], strlen(UK[id])), v);
        r = T->putint(T, (char *)kb.p, v);
        char s[32]; vl = (size_t)snprintf(s, sizeof s, "%" PRId64, v) + 1;
        m_put(id, s, vl);
        if (r) { errno = 0; int64_t g = T->getint(T, (char *)kb.p); vf_count("getint", 1);
                 if (g != v) judge("C05", "getint", "getint returned %" PRId64 " after putint %" PRId64, g, v); }
    } else {
        vl = gen_value(api == 4 || api == 5);
        if (api != 4 && api != 5 && rng_chance(&R, 1, 15)) { vl = 0; vf_count("put_empty_value", 1); }    /* a zero-length value behind a non-NULL pointer is accepted and stored */
        cbuf_t vb = cb_make(VBUF, vl, false);
        vf_log("put[%d] k%d=%s v=%s", api, id, vf_hex(UK[id], strlen(UK[id])), vf_hex(VBUF, vl));
        if (api == 4) r = T->putstr(T, (char *)kb.p, (char *)vb.p);
        else if (api == 5) r = T->putstrf(T, (char *)kb.p, "%s", (char *)vb.p);
        else r = T->put(T, (char *)kb.p, vb.p, vb.n);
        cb_drop(&vb);
        m_put(id, VBUF, vl);
    }
    cb_drop(&kb);
    vf_count(wasnew ? "put_new" : "put_replace", 1);
    if (!r) judge("C05", "put-failed", "put of key %d returned false (errno %d)", id, errno);
}
static void op_get(int id) {
    int api = (int)rng_below(&R, 2); bool newmem = rng_chance(&R, 1, 2);
    if (api == 1 && MP[id] && (MVL[id] == 0 || MV[id][MVL[id] - 1] != 0 || strlen((char *)MV[id]) + 1 != MVL[id])) api = 0;
    cbuf_t kb = cb_make(UK[id], strlen(UK[id]) + 1, rng_below(&R, 4));
    size_t sz = 999; void *d; errno = 0;
    vf_log("get[%d,newmem=%d] k%d", api, newmem, id);
    if (api == 0) d = T->get(T, (char *)kb.p, optout(&sz, MP[id] ? MVL[id] : sz), newmem);
    else { d = T->getstr(T, (char *)kb.p, newmem); sz = d ? strlen(d) + 1 : 0; }
    int e = errno;
    cb_drop(&kb);
    vf_count(MP[id] ? "get_hit" : "get_miss", 1);
    if (MP[id]) { if (!d) judge("C05", "get-miss", "get of present key %d returned NULL", id);
                  else if (sz != MVL[id] || memcmp(d, MV[id], sz)) judge("C05", "get-wrong", "get of key %d: size %zu expected %zu or bytes differ", id, sz, MVL[id]); }
    else { if (d) judge("C05", "get-phantom", "get of absent key %d returned data", id);
           else if (e != ENOENT) judge("C05", "get-errno", "get of absent key %d: errno=%d", id, e); }
    if (d && newmem) free(d);
}
static void op_remove(int id, const char *posclass) {
    cbuf_t kb = cb_make(UK[id], strlen(UK[id]) + 1, rng_below(&R, 4));
    vf_log("remove k%d=%s (%s)", id, vf_hex(UK[id], strlen(UK[id])), posclass);
    errno = 0;
    bool r = T->remove(T, (char *)kb.p); int e = errno;
    cb_drop(&kb);
    bool m = m_remove(id);
    vf_count(m ? posclass : "remove_absent", 1);
    if (r != m) judge("C05", m ? "remove-present-failed" : "remove-absent-succeeded", "remove of key %d returned %d, model %d", id, r, m);
    else if (!r && e != ENOENT) judge("C05", "remove-errno", "remove of absent key %d: errno=%d", id, e);
}
/* removal chosen by chain position, read from the public slot array */
static void op_remove_by_position(int want) {  /* 0 head of a chain>=2, 1 middle of chain>=3, 2 tail of chain>=2, 3 only node */
    int cand = -1, seen = 0;
    for (size_t s = 0; s < T->range; s++) {
        long len = 0; for (qhashtbl_obj_t *o = T->slots[s]; o; o = o->next) len++;
        long i = 0;
        for (qhashtbl_obj_t *o = T->slots[s]; o; o = o->next, i++) {
            bool ok = (want == 0 && len >= 2 && i == 0) || (want == 1 && len >= 3 && i > 0 && i < len - 1) ||
                      (want == 2 && len >= 2 && i == len - 1) || (want == 3 && len == 1);
            if (ok && rng_below(&R, (uint32_t)++seen) == 0) cand = key_id(o->name);
        }
    }
    static const char *N[] = {"remove_chain_head", "remove_chain_middle", "remove_chain_tail", "remove_only_node"};
    if (cand >= 0) op_remove(cand, N[want]);
}
static void op_walk(bool newmem) {
    qhashtbl_obj_t obj; memset(&obj, 0, sizeof obj);
    unsigned char *seen = hm_alloc((size_t)NU); memset(seen, 0, (size_t)NU);
    int n = 0;
    vf_log("walk[newmem=%d] n=%d", newmem, MN);
    while (1) {
        errno = 0;
        bool r = T->getnext(T, &obj, newmem);
        if (!r) { if (errno != ENOENT) judge("C05", "walk-end-errno", "getnext end: errno=%d", errno); break; }
        int id = obj.name ? key_id(obj.name) : -1;
        bool bad = id < 0 || !MP[id] || obj.size != MVL[id] || !obj.data || memcmp(obj.data, MV[id], MVL[id]);
        bool dup = id >= 0 && seen[id];
        if (newmem) { free(obj.name); free(obj.data); }
        if (bad) { judge("C05", "walk-foreign", "walk returned an entry that is not stored (key id %d)", id); break; }
        if (dup) { judge("C05", "walk-duplicate", "walk returned key %d twice", id); break; }
        seen[id] = 1;
        if (++n > MN) { judge("C05", "walk-extra", "walk returned more than %d entries", MN); break; }
    }
    if (!abandon) { if (n != MN) judge("C05", "walk-missed", "walk returned %d of %d keys", n, MN); else { vf_count("walks_audited", 1); vf_count("walk_elements_compared", n); } }
    hm_free(seen);
}

static int pick_key(void) {
    if (MN > 0 && rng_chance(&R, 4, 10)) { int k = (int)rng_below(&R, (uint32_t)MN); for (int i = 0; i < NU; i++) if (MP[i] && k-- == 0) return i; }
    return (int)rng_below(&R, (uint32_t)NU);
}

static void history(long caseno) {
    rng_seed(&R, VF.seed, (uint64_t)caseno);
    static const size_t RANGES[] = {1, 2, 3, 7, 64, 0};
    size_t range = RANGES[caseno % 6];
    int U = range == 1 ? 1 + (int)rng_below(&R, 40) : range == 0 ? 50 + (int)rng_below(&R, 300) : (int)(range * (1 + rng_below(&R, 8))) + 1;
    if (U > 400) U = 400;
    int style = (int)rng_below(&R, 5);
    if (style == 4 && U < 4) U = 4;
    universe_make(U, style);
    if (style == 4) vf_count("histories_with_full_hash_collisions", 1);
    int nops = VF.thorough ? 4000 : 1500;
    vf_case_begin(caseno, "random history: range=%zu universe=%d keystyle=%d ops=%d", range, NU, style, nops);
    table_new(range);
    if (caseno & 1) decoy_new(range);
    bool small = NU <= 48;
    for (int op = 0; op < nops && !abandon; op++) {
        uint32_t c = rng_below(&R, 100);
        bool mut = false;
        if (DECOY && rng_chance(&R, 1, 3)) decoy_step();
        if (c < 38) { op_put(pick_key()); mut = true; }
        else if (c < 50) { int id = pick_key(); op_remove(id, "remove_random_present"); mut = true; }
        else if (c < 62) { op_remove_by_position((int)rng_below(&R, 4)); mut = true; }
        else if (c < 88) op_get(pick_key());
        else if (c < 94) op_walk(rng_chance(&R, 1, 2));
        else if (c < 96) { vf_log("size"); if (T->size(T) != (size_t)MN) judge("C05", "size", "size()=%zu model=%d", T->size(T), MN); }
        else if (c < 97 && rng_chance(&R, 1, 3)) { vf_log("clear"); T->clear(T); m_clear(); vf_count("clear", 1); mut = true; }
        else if (rng_chance(&R, 1, 2)) { /* re-put of a key with (a prefix of) its own stored bytes, through the pointer a non-copying get handed out */
               int id = pick_key(); if (MP[id] && MVL[id]) { size_t sz = 0; void *d = T->get(T, UK[id], &sz, false);
                   if (!d || sz != MVL[id]) judge("C05", "get-wrong", "non-copying get of key %d: size %zu expected %zu", id, sz, MVL[id]);
                   else { size_t nl = rng_chance(&R, 1, 4) ? sz : 1 + rng_below(&R, (uint32_t)sz); unsigned char *expect = vf_xdup(d, nl);
                          vf_log("put k%d with its own stored bytes, length %zu of %zu", id, nl, sz);
                          if (!T->put(T, UK[id], d, nl)) judge("C05", "put-failed", "re-put of key %d with its own bytes returned false", id);
                          m_put(id, expect, nl); hm_free(expect); mut = true; vf_count("puts_from_the_stored_pointer", 1); } } }
        else { errno = 0; vf_log("invalid"); if (T->put(T, NULL, "x", 1) || errno != EINVAL) judge("C05", "einval", "put(NULL name) not refused");
               { int id = pick_key(); errno = 0; if (T->put(T, UK[id], NULL, 3) || errno != EINVAL) judge("C05", "einval", "put(NULL data) not refused"); }
               errno = 0; if (T->get(T, NULL, NULL, false) || errno != EINVAL) judge("C05", "einval", "get(NULL) not refused");
               errno = 0; if (T->remove(T, NULL) || errno != EINVAL) judge("C05", "einval", "remove(NULL) not refused"); vf_count("invalid_arg_calls", 3); }
        vf_count("evaluations", 1);
        if (abandon) break;
        if (small || (op & 15) == 0) { content_check(); if (!abandon) { uint64_t s = structure_check(); if (mut) vf_distinct("distinct", s ^ USALT ^ (RANGE * 0x9E3779B97F4A7C15ULL)); } }
        if (small && mut && !abandon && (op & 3) == 0) op_walk(false);
        if (P == 11 && (op & 15) == 0 && vf_san_poll()) break;
    }
    if (!abandon) vf_count("histories_completed", 1); else vf_count("histories_abandoned", 1);
    if (caseno < 6 && !abandon) vf_sample("history #%ld: range=%zu universe=%d (e.g. %s) ops=%d final_keys=%d", caseno, RANGE, NU, vf_hex(UK[0], strlen(UK[0])), nops, MN);
    table_free();
    if (P == 11) vf_san_poll();
    universe_free();
}

/* directed phase: every removal position class for every small range */
static void directed(long caseno) {
    rng_seed(&R, VF.seed, (uint64_t)caseno);
    static const size_t RANGES[] = {1, 2, 3, 7};
    size_t range = RANGES[caseno % 4];
    universe_make((int)range * 6 + 4, 0);
    vf_case_begin(caseno, "directed removal positions: range=%zu universe=%d", range, NU);
    table_new(range);
    for (int round = 0; round < 12 && !abandon; round++) {
        for (int id = 0; id < NU && !abandon; id++) { op_put(id); vf_count("evaluations", 1); }
        structure_check(); content_check();
        for (int k = 0; k < NU * 2 && !abandon && MN > 0; k++) {
            op_remove_by_position((round + k) % 4); vf_count("evaluations", 1);
            if (abandon) break;
            uint64_t s = structure_check(); content_check(); if (!abandon) op_walk(k & 1);
            vf_distinct("distinct", s ^ USALT ^ (RANGE * 0x9E3779B97F4A7C15ULL));
        }
    }
    vf_count(abandon ? "histories_abandoned" : "histories_completed", 1);
    table_free(); universe_free();
}

int main(int argc, char **argv) {
    vf_init(argc, argv, "h_hashtbl");
    vf_errno_entry = 1; vf_op_budget_ms = VF.thorough ? 120000 : 10000;   /* stale errno on entry of every logged operation; a call that never returns is hang:operation */
    vf_errno_noise_every = 5;   /* every fifth case: successful allocations leave errno = ENOMEM behind (glibc does when brk fails) */
    P = atoi(VF.prop + 1);
    if (P != 5 && P != 11) { fprintf(stderr, "h_hashtbl: unsupported property %s\n", VF.prop); return 2; }
    vf_ledger_enable(true);
    long ncases = vf_arg_long("cases", 400);
    find_collisions();
    for (long c = 0; c < 64; c++) if (vf_mine(900000 + c)) directed(900000 + c);
    for (long c = 0; c < ncases; c++) if (vf_mine(c)) history(c);
    return vf_finish() ? 1 : 0;
}
