/* h_tree.c - tree table (qtreetbl) under the monitors of C01, C02, C03, C04
 * (and, in the asan build, C11).
 *
 *  phase A  bounded-exhaustive: breadth-first over every LLRB shape reachable by
 *           put(k)/remove(k) over a small key universe; every operation applied
 *           to every shape, the property's oracle evaluated on every transition.
 *           Each shard runs one (ordering, key class) configuration.
 *  phase B  seeded random histories (cases distributed over shards).
 */
#define _GNU_SOURCE
#include <stdlib.h>
#include <string.h>
#include <errno.h>
#include <pthread.h>
#include "qlibc.h"
#include "vfc.h"
/* the print helpers (debug()) run on real contents now and then: C11 covers what they read */
static FILE *DEVNULL; static unsigned long DBGCTR;
#define DEBUG_NOW() (((++DBGCTR) % 61) == 0 && (DEVNULL || (DEVNULL = fopen("/dev/null", "w"))))


/* ------------------------------------------------------------------ orderings */
typedef int (*cmp_t)(const void *, size_t, const void *, size_t);
static long cmp_calls;

static int ord_bytes(const void *a, size_t al, const void *b, size_t bl) {
    const unsigned char *x = a, *y = b;
    size_t n = al < bl ? al : bl;
    for (size_t i = 0; i < n; i++) if (x[i] != y[i]) return x[i] < y[i] ? -1 : 1;
    return al == bl ? 0 : (al < bl ? -1 : 1);
}
static int ord_rev(const void *a, size_t al, const void *b, size_t bl) { return -ord_bytes(a, al, b, bl); }
static int ord_len(const void *a, size_t al, const void *b, size_t bl) {
    if (al != bl) return al < bl ? -1 : 1;
    return ord_bytes(a, al, b, bl);
}
static int ord_sfx(const void *a, size_t al, const void *b, size_t bl) {  /* compare from the last byte */
    const unsigned char *x = a, *y = b;
    size_t n = al < bl ? al : bl;
    for (size_t i = 1; i <= n; i++) if (x[al - i] != y[bl - i]) return x[al - i] < y[bl - i] ? -7 : 9;
    return al == bl ? 0 : (al < bl ? -3 : 5);
}
static int ord_ci(const void *a, size_t al, const void *b, size_t bl) {   /* NOT injective: letter case is ignored, so distinct byte strings can be equal keys */
    const unsigned char *x = a, *y = b; size_t n = al < bl ? al : bl;
    for (size_t i = 0; i < n; i++) { unsigned char p = x[i], q = y[i]; if (p >= 'A' && p <= 'Z') p += 32; if (q >= 'A' && q <= 'Z') q += 32; if (p != q) return p < q ? -1 : 1; }
    return al == bl ? 0 : (al < bl ? -1 : 1);
}
/* a user-supplied ordering is ordinary code: it may look keys up in another table (a miss leaves ENOENT), parse numbers (ERANGE), allocate (ENOMEM).
 * In every third case the installed comparators leave such a value in errno; the table must not take it for the outcome of its own operation. */
static bool cmp_sets_errno;
#define COUNTING(name, base) static int name(const void *a, size_t al, const void *b, size_t bl) { cmp_calls++; int r = base(a, al, b, bl); \
    if (cmp_sets_errno) { static const int E[] = {ENOENT, ENOMEM, 0, EINVAL, ENOENT, ERANGE, ENOMEM}; errno = E[(cmp_calls + (r > 0)) % 7]; } return r; }
COUNTING(cnt_bytes, ord_bytes) COUNTING(cnt_rev, ord_rev) COUNTING(cnt_len, ord_len) COUNTING(cnt_sfx, ord_sfx) COUNTING(cnt_ci, ord_ci)
/* configuration 0 leaves the library's default comparator in place */
static const struct { const char *name; cmp_t model; cmp_t installed; } ORD[] = {
    {"default", ord_bytes, NULL}, {"bytes(counting)", ord_bytes, cnt_bytes}, {"reverse", ord_rev, cnt_rev},
    {"length-then-bytes", ord_len, cnt_len}, {"suffix-first", ord_sfx, cnt_sfx}, {"case-insensitive(non-injective)", ord_ci, cnt_ci}};
#define NORD 6
#define ORD_CI 5

/* ------------------------------------------------------------------ universe */
typedef struct { unsigned char *k; size_t kl; bool is_str; bool probe_only; } ukey_t;
static ukey_t *UK; static int NU;
static const char *KCLS[] = {"byte", "cstring", "prefix-family", "binary-embedded-nul", "be-int32", "len-twins", "case-aliases"};
#define NKCLS 7
#define KCLS_ALIAS 6

static bool uk_has(int n, const unsigned char *k, size_t kl) {
    for (int i = 0; i < n; i++) if (UK[i].kl == kl && !memcmp(UK[i].k, k, kl)) return true;
    return false;
}
static void universe_free(void) {
    for (int i = 0; i < NU; i++) hm_free(UK[i].k);
    hm_free(UK); UK = NULL; NU = 0;
}
static void universe_make(rng_t *r, int cls, int n) {
    UK = hm_alloc(sizeof(ukey_t) * (size_t)n); NU = 0;
    if (cls == 0 && n > 200) cls = 3;
    int guard = 0;
    while (NU < n && guard++ < n * 1000) {
        unsigned char b[64]; size_t l = 0; bool is_str = false;
        switch (cls) {
        case 0: b[0] = (unsigned char)rng_below(r, 256); l = 1; break;
        case 1: { int len = 1 + (int)rng_below(r, 8);
                  for (int i = 0; i < len; i++) b[i] = (unsigned char)("abcXYZ019_\x80\xff"[rng_below(r, 12)]);
                  b[len] = 0; l = (size_t)len + 1; is_str = true; break; }
        case 2: { int len = 1 + (int)rng_below(r, 10);
                  for (int i = 0; i < len; i++) b[i] = rng_chance(r, 5, 6) ? 'a' : 'b';
                  b[len] = 0; l = (size_t)len + 1; is_str = true; break; }
        case 3: { l = 1 + rng_below(r, 40);
                  for (size_t i = 0; i < l; i++) b[i] = rng_chance(r, 1, 3) ? 0 : (unsigned char)rng_below(r, 256); break; }
        case 4: { uint32_t v = (uint32_t)rng_below(r, n < 64 ? 300 : 1000000);
                  b[0] = (unsigned char)(v >> 24); b[1] = (unsigned char)(v >> 16); b[2] = (unsigned char)(v >> 8); b[3] = (unsigned char)v; l = 4; break; }
        case 6: { /* spellings that differ only in letter case: equal keys under the case-insensitive ordering */
                  if (NU > 0 && rng_chance(r, 1, 2)) { ukey_t *o = &UK[rng_below(r, (uint32_t)NU)]; memcpy(b, o->k, o->kl); l = o->kl;
                      for (size_t i = 0; i + 1 < l; i++) if (rng_chance(r, 1, 2)) b[i] ^= 0x20; }
                  else { int len = 1 + (int)rng_below(r, 3); for (int i = 0; i < len; i++) b[i] = (unsigned char)("kqzKQZ"[rng_below(r, 6)]); b[len] = 0; l = (size_t)len + 1; }
                  is_str = true; break; }
        default: { /* keys differing only in length: x, x\0, x\0\0 ... and x itself a prefix */
                  if (NU > 0 && rng_chance(r, 2, 3)) { ukey_t *o = &UK[rng_below(r, (uint32_t)NU)];
                      if (o->kl < 40) { memcpy(b, o->k, o->kl); b[o->kl] = rng_chance(r, 1, 2) ? 0 : o->k[0]; l = o->kl + 1; } }
                  if (!l) { b[0] = (unsigned char)('p' + rng_below(r, 3)); l = 1; } break; }
        }
        if (uk_has(NU, b, l)) continue;
        UK[NU].k = vf_xdup(b, l); UK[NU].kl = l; UK[NU].is_str = is_str; UK[NU].probe_only = false; NU++;
    }
    if (NU < 2) { fprintf(stderr, "universe too small\n"); exit(2); }
}

/* ------------------------------------------------------------------ model (sorted array) */
typedef struct { int id; unsigned char *v; size_t vl; } ment_t;
static ment_t *ME; static int MN, MCAP; static cmp_t MCMP;
static int *UPOS;   /* universe id -> present? (index+1 unused) simple flag */

static int m_find(const void *k, size_t kl, bool *found) {  /* lower bound */
    int lo = 0, hi = MN;
    *found = false;
    while (lo < hi) {
        int mid = (lo + hi) / 2;
        int c = MCMP(UK[ME[mid].id].k, UK[ME[mid].id].kl, k, kl);
        if (c == 0) { *found = true; return mid; }
        if (c < 0) lo = mid + 1; else hi = mid;
    }
    return lo;
}
static void m_clear(void) { for (int i = 0; i < MN; i++) hm_free(ME[i].v); MN = 0; }
static bool m_put(int id, const void *v, size_t vl) {  /* returns true if new */
    bool f; int p = m_find(UK[id].k, UK[id].kl, &f);
    if (f) { hm_free(ME[p].v); ME[p].v = vf_xdup(v, vl); ME[p].vl = vl; return false; }
    if (MN == MCAP) { MCAP = MCAP ? MCAP * 2 : 64; ME = vf_xrealloc(ME, sizeof(ment_t) * (size_t)MCAP); }
    memmove(&ME[p + 1], &ME[p], sizeof(ment_t) * (size_t)(MN - p));
    ME[p].id = id; ME[p].v = vf_xdup(v, vl); ME[p].vl = vl; MN++;
    return true;
}
static bool m_remove(int id) {
    bool f; int p = m_find(UK[id].k, UK[id].kl, &f);
    if (!f) return false;
    hm_free(ME[p].v);
    memmove(&ME[p], &ME[p + 1], sizeof(ment_t) * (size_t)(MN - p - 1)); MN--;
    return true;
}

/* ------------------------------------------------------------------ state */
static qtreetbl_t *T;
static rng_t R;
static int ORDI;                 /* ordering index */
static bool abandon;             /* oracle of another property failed: history no longer meaningful */
static bool pending_walk;        /* a traversal has been left unfinished */
static bool fresh_insert, root_changed;
static long valctr;
static long ledger_mark;
static int P;                    /* 1..4 = C01..C04, 11 = C11, 15 = C15 */
static const char *OOMCTX = "-";  /* operation that last received an injected allocation failure */
static uint64_t USALT;           /* salt: universe + ordering, so distinct-hashes of different configurations differ */

static uint64_t structure_check(bool report);
static bool judge(const char *prop, const char *key, const char *fmt, ...) __attribute__((format(printf, 3, 4)));
static bool judge(const char *prop, const char *key, const char *fmt, ...) {
    char msg[600]; va_list ap; va_start(ap, fmt); vsnprintf(msg, sizeof msg, fmt, ap); va_end(ap);
    abandon = true;
    if (P == 15) { char k2[160]; snprintf(k2, sizeof k2, "oom:%s:%s", OOMCTX, key); vf_viol("C15", k2, "[after injected allocation failure in %s] %s", OOMCTX, msg); return true; }
    if (!strcmp(prop, VF.prop)) { vf_viol(prop, key, "%s", msg); return true; }
    vf_count("other_property_oracle_mismatch", 1);
    if (VF.verbose) fprintf(stderr, "  (other property %s %s: %s)\n", prop, key, msg);
    /* another property's oracle disagreed (e.g. the map oracle of C01 during a C02 run): this property's own walker still gets its look at the tree */
    static bool in_own_walk;
    if (P == 2 && T && !in_own_walk) { in_own_walk = true; abandon = false; structure_check(true); abandon = true; in_own_walk = false; }
    return true;
}

/* exact-size heap copy of caller data, optionally at an odd offset inside its block
 * (block end == data end, so any over-read leaves the allocation) */
typedef struct { unsigned char *base, *p; size_t n; } cbuf_t;
static cbuf_t cb_make(const void *src, size_t n, unsigned off) {   /* off: the copy starts at this offset inside its block (0..3): equal keys reach the library through differently aligned pointers */
    cbuf_t c;
    c.base = hm_alloc(n + off); c.p = c.base + off; c.n = n;
    if (n) memcpy(c.p, src, n);
    return c;
}
static void cb_drop(cbuf_t *c) {   /* scribble, then release: the table must not depend on it */
    memset(c->base, 0xA5, c->n + (size_t)(c->p - c->base));
    hm_free(c->base); c->base = c->p = NULL;
}

/* a second, unrelated table of the same type used in between (every other random history): puts, removes, lookups, a slow walk and searches over
 * the SAME key bytes. Nothing a table keeps may be shared with another instance: whatever the library remembers across calls (a cached node, a
 * travel id, a scratch buffer) belongs to one table. The decoy's own results are not judged; the main table's oracles see the damage. */
static qtreetbl_t *DECOY; static qtreetbl_obj_t DECOY_CUR;
static void decoy_new(void) { DECOY = qtreetbl(0); memset(&DECOY_CUR, 0, sizeof DECOY_CUR); if (DECOY) vf_count("histories_with_a_second_table_used_in_between", 1); }
static void decoy_free(void) { if (DECOY) { DECOY->free(DECOY); DECOY = NULL; } }
static void decoy_step(void) {
    if (!DECOY || NU == 0) return;
    int e = errno;
    ukey_t *k = &UK[rng_below(&R, (uint32_t)NU)]; uint32_t c = rng_below(&R, 6); unsigned char v[24]; size_t vl = 1 + rng_below(&R, sizeof v); memset(v, 0xD0 + (int)c, vl);
    /* a walk is only continued while the decoy itself is not modified (the documented contract of getnext) */
    if (c == 0 || c == 1) { DECOY->putobj(DECOY, k->k, k->kl, v, vl); memset(&DECOY_CUR, 0, sizeof DECOY_CUR); }
    else if (c == 2) { DECOY->removeobj(DECOY, k->k, k->kl); memset(&DECOY_CUR, 0, sizeof DECOY_CUR); }
    else if (c == 3) { size_t sz; void *d = DECOY->getobj(DECOY, k->k, k->kl, &sz, true); free(d); }
    else if (c == 4) { if (!DECOY->getnext(DECOY, &DECOY_CUR, false)) memset(&DECOY_CUR, 0, sizeof DECOY_CUR); }
    else { qtreetbl_obj_t o = DECOY->find_nearest(DECOY, k->k, k->kl, false); (void)o; memset(&DECOY_CUR, 0, sizeof DECOY_CUR); }
    vf_count("operations_on_the_second_table", 1);
    errno = e;
}
static int TREE_OPT;      /* C15 phase: alternate the thread-safe flag so that a lock left held by a failed call is observable */
static void table_new(void) {
    ledger_mark = vf_ledger_mark();
    { static unsigned long tctr; tctr++; T = qtreetbl(TREE_OPT | ((P != 15 && (tctr & 1)) ? QTREETBL_THREADSAFE : 0)); }
    if (!T) { fprintf(stderr, "qtreetbl() failed\n"); exit(2); }
    if (ORD[ORDI].installed) T->set_compare(T, ORD[ORDI].installed);
    cmp_sets_errno = ORD[ORDI].installed && (vf_cur_case % 3) == 1; if (cmp_sets_errno) vf_count("tables_whose_comparator_leaves_errno_values", 1);
    MCMP = ORD[ORDI].model;
    m_clear();
    abandon = false; pending_walk = false; fresh_insert = root_changed = false;
    USALT = VF_H0 + (uint64_t)ORDI;
    for (int i = 0; i < NU && i < 8; i++) USALT = vf_hash(UK[i].k, UK[i].kl, USALT);
}
static void table_free(void) {
    if (!T) return;
    T->free(T); T = NULL;
    long live = vf_ledger_live_since(ledger_mark);
    vf_count("containers_released", 1);
    if (live != 0) {
        if (VF.verbose) vf_ledger_dump_since(ledger_mark, 5);
        judge("C11", "leak:qtreetbl", "%ld block(s) allocated by the table still live after free()", live);
    } else vf_count("containers_released_leak_free", 1);
    if (vf_foreign_frees) { judge("C11", "bad-free:qtreetbl", "free() of a pointer the library never allocated / already freed"); vf_foreign_frees = 0; }
}

/* ------------------------------------------------------------------ C02 walker */
typedef struct { long nodes; int bh; const char *why; uint64_t shape; int height; } walk_t;
static int node_id(qtreetbl_obj_t *o) {
    bool f; int p = m_find(o->name, o->namesize, &f);
    return f ? ME[p].id : -1;
}
static int walk_rec(qtreetbl_obj_t *o, qtreetbl_obj_t *lo, qtreetbl_obj_t *hi, walk_t *w, int depth, bool parent_red) {
    /* returns black height of subtree, -1 on violation */
    if (!o) { w->shape = w->shape * 1099511628211ULL ^ 0x5f; return 0; }
    if (depth > 200) { w->why = "depth>200 (cycle?)"; return -1; }
    if (depth > w->height) w->height = depth;
    if (!o->name || o->namesize == 0) { w->why = "node with NULL/empty key"; return -1; }
    w->nodes++;
    if (lo && MCMP(lo->name, lo->namesize, o->name, o->namesize) >= 0) { w->why = "search order (left bound)"; return -1; }
    if (hi && MCMP(o->name, o->namesize, hi->name, hi->namesize) >= 0) { w->why = "search order (right bound)"; return -1; }
    if (o->red && parent_red) { w->why = "red node with red child"; return -1; }
    bool lr = o->left && o->left->red, rr = o->right && o->right->red;
    if (rr && !lr) { w->why = "right-leaning lone red link"; return -1; }
    w->shape = vf_hash(o->name, o->namesize, w->shape) * 2 + (o->red ? 1 : 0);
    int a = walk_rec(o->left, lo, o, w, depth + 1, o->red);
    if (a < 0) return -1;
    int b = walk_rec(o->right, o, hi, w, depth + 1, o->red);
    if (b < 0) return -1;
    if (a != b) { w->why = "unequal black height"; return -1; }
    return a + (o->red ? 0 : 1);
}
static uint64_t structure_check(bool judge_it) {
    walk_t w = {0, 0, NULL, VF_H0, 0};
    if (T->root && T->root->red) w.why = "red root";
    int bh = w.why ? -1 : walk_rec(T->root, NULL, NULL, &w, 1, false);
    if (!judge_it) return w.shape;
    vf_count("structure_checks", 1);
    if (bh < 0) { judge("C02", "llrb-invariant", "independent walker: %s (n=%d)", w.why, MN); return 0; }
    if ((size_t)w.nodes != T->num) { judge("C02", "node-count", "walker counted %ld nodes, table says %zu", w.nodes, T->num); return 0; }
    int rc = qtreetbl_check(T);
    if (rc != 0) { judge("C02", "self-check-disagrees", "qtreetbl_check()=%d while the independent walker accepts the tree", rc); return 0; }
    vf_max("max_height", w.height);
    return w.shape;
}
static void lookup_cost_check(int id) {
    if (!ORD[ORDI].installed) return;
    cmp_calls = 0;
    size_t sz = 0;
    (void)T->getobj(T, UK[id].k, UK[id].kl, &sz, false);
    long c = cmp_calls; unsigned long long n1 = (unsigned long long)MN + 1;
    vf_count("lookups_cost_checked", 1);
    if (c > 0 && MN > 0) vf_max("max_cmp_x1000_over_bound", (long)(c * 1000.0 / (2.0 * __builtin_log2((double)n1))));
    if (c >= 63 || (1ULL << c) > n1 * n1)
        judge("C02", "lookup-cost", "lookup of key %d took %ld comparisons with n=%d (bound 2*log2(n+1))", id, c, MN);
}

/* ------------------------------------------------------------------ C01 content oracle */
/* a stored value of length 0 is legal (putobj(name, size, NULL, 0), putstr(name, NULL)): the key is present, reads deliver no bytes */
static bool val_ok(const void *d, size_t sz, int p) { return ME[p].vl == 0 ? (d == NULL && sz == 0) : (d != NULL && sz == ME[p].vl && !memcmp(d, ME[p].v, sz)); }

/* optional out-parameters are NULL in one call out of four; the variable is preset to what the callee would have stored */
static size_t *optout(size_t *p, size_t expect) { if (rng_chance(&R, 1, 4)) { *p = expect; vf_count("calls_with_null_out_parameter", 1); return NULL; } return p; }
static void content_check(void) {
    { static unsigned long pc; if (T->qmutex && P != 15 && (++pc % 29) == 0 && !vf_lock_probe(T->qmutex)) { judge(VF.prop, "unusable-for-other-threads", "a second thread can not take the lock of the (thread-safe) table: an earlier call returned with it held"); return; } }
    if (DEBUG_NOW()) { T->debug(T, DEVNULL); vf_count("debug_prints", 1); }
    vf_count("content_compares", 1);
    if (T->size(T) != (size_t)MN) { judge("C01", "size", "size()=%zu model=%d", T->size(T), MN); return; }
    for (int id = 0; id < NU; id++) {
        if (UK[id].probe_only) continue;
        bool f; int p = m_find(UK[id].k, UK[id].kl, &f);
        size_t sz = 12345; errno = 0;
        void *d = T->getobj(T, UK[id].k, UK[id].kl, &sz, false);
        if (f) {
            if (!d && (ME[p].vl || (errno == ENOENT && !cmp_sets_errno)))   /* an empty value reads as NULL; errno tells it from "absent" only while the comparator leaves errno alone */  { judge("C01", "key-lost", "key %d (%s) vanished", id, vf_hex(UK[id].k, UK[id].kl)); return; }
            if (!val_ok(d, sz, p)) { judge("C01", "value-changed", "key %d holds wrong value (size %zu, expected %zu)", id, sz, ME[p].vl); return; }
        } else if (d) { judge("C01", "phantom-key", "absent key %d (%s) found", id, vf_hex(UK[id].k, UK[id].kl)); return; }
    }
    size_t ns = 0; errno = 0;
    void *mn = T->find_min(T, optout(&ns, MN ? UK[ME[0].id].kl : 0));
    if (MN == 0) { if (mn) { judge("C01", "find_min", "find_min on empty table returned a key"); free(mn); return; }
                   if (errno != ENOENT) { judge("C01", "find_min-errno", "find_min on empty table: errno=%d", errno); return; } }
    else { ukey_t *e = &UK[ME[0].id];
        if (!mn || ns != e->kl || memcmp(mn, e->k, ns)) { judge("C01", "find_min", "find_min returned %s expected %s", vf_hex(mn, mn ? ns : 0), vf_hex(e->k, e->kl)); free(mn); return; } }
    free(mn);
    ns = 0; errno = 0;
    void *mx = T->find_max(T, optout(&ns, MN ? UK[ME[MN - 1].id].kl : 0));
    if (MN == 0) { if (mx) { judge("C01", "find_max", "find_max on empty table returned a key"); free(mx); return; }
                   if (errno != ENOENT) { judge("C01", "find_max-errno", "find_max on empty table: errno=%d", errno); return; } }
    else { ukey_t *e = &UK[ME[MN - 1].id];
        if (!mx || ns != e->kl || memcmp(mx, e->k, ns)) { judge("C01", "find_max", "find_max returned %s expected %s", vf_hex(mx, mx ? ns : 0), vf_hex(e->k, e->kl)); free(mx); return; } }
    free(mx);
}

/* ------------------------------------------------------------------ operations */
static void after_mutation(qtreetbl_obj_t *oldroot) {
    if (T->root != oldroot) root_changed = true;
}
static unsigned char VBUF[2400];
static size_t gen_value(bool as_string) {
    size_t l;
    uint32_t c = rng_below(&R, 10);
    if (c < 5) l = 1 + rng_below(&R, 12); else if (c < 9) l = 1 + rng_below(&R, 80); else l = 200 + rng_below(&R, 101);
    if (as_string && rng_chance(&R, 1, 40)) l = (size_t[]){1023, 1024, 1025, 1500, 2048}[rng_below(&R, 5)];     /* the formatted put functions retry with a larger buffer from 1024 bytes on */
    for (size_t i = 0; i < l; i++) VBUF[i] = as_string ? (unsigned char)(1 + rng_below(&R, 255)) : (rng_chance(&R, 1, 4) ? 0 : (unsigned char)rng_below(&R, 256));
    valctr++;
    if (as_string) { int n = snprintf((char *)VBUF, l + 1 < 12 ? l + 1 : 12, "%ld", valctr); (void)n; for (size_t i = 0; i < l; i++) if (!VBUF[i]) VBUF[i] = '~'; VBUF[l] = 0; return l + 1; }
    if (l >= 4) { VBUF[0] = (unsigned char)valctr; VBUF[1] = (unsigned char)(valctr >> 8); VBUF[2] = (unsigned char)(valctr >> 16); }
    else VBUF[0] = (unsigned char)(valctr | 1);
    return l;
}

static void op_put(int id) {
    ukey_t *k = &UK[id];
    int api = k->is_str ? (int)rng_below(&R, 4) : 0;      /* 0 putobj 1 put 2 putstr 3 putstrf */
    size_t vl = gen_value(api >= 2);
    bool nullval = false;
    if (api < 3 && rng_chance(&R, 1, 12)) { vl = 0; nullval = api == 2 || rng_chance(&R, 1, 2); vf_count("put_empty_value", 1); }   /* zero-length value, as a NULL or a non-NULL pointer */
    cbuf_t kb = cb_make(k->k, k->kl, rng_below(&R, 4));
    cbuf_t vb = cb_make(VBUF, vl, false);
    qtreetbl_obj_t *oldroot = T->root;
    bool r;
    vf_log("put[%s] k%d=%s v=%s", (const char *[]){"putobj", "put", "putstr", "putstrf"}[api], id, vf_hex(k->k, k->kl), vf_hex(VBUF, vl));
    oom_begin();
    switch (api) {
    case 0: r = T->putobj(T, kb.p, kb.n, nullval ? NULL : vb.p, vb.n); break;
    case 1: r = T->put(T, (char *)kb.p, nullval ? NULL : vb.p, vb.n); break;
    case 2: r = T->putstr(T, (char *)kb.p, nullval ? NULL : (char *)vb.p); break;
    default: r = T->putstrf(T, (char *)kb.p, "%s", (char *)vb.p); break;
    }
    long hits = oom_end();
    cb_drop(&kb);
    unsigned char *vcopy = vf_xdup(vb.p, vb.n); cb_drop(&vb);
    if (hits) { OOMCTX = "put"; if (!r) { hm_free(vcopy); after_mutation(oldroot); vf_count("oom_reported_failure", 1); return; } vf_count("oom_completed_despite_failure", 1); }
    bool isnew = m_put(id, vcopy, vl); hm_free(vcopy);
    vf_count(isnew ? "put_new" : "put_replace", 1);
    if (isnew) fresh_insert = true;
    after_mutation(oldroot);
    if (!r) judge("C01", "put-failed", "put of key %d returned false (errno %d)", id, errno);
}
static void op_get(int id) {
    ukey_t *k = &UK[id];
    int api = k->is_str ? (int)rng_below(&R, 3) : 0;      /* 0 getobj 1 get 2 getstr */
    bool newmem = rng_chance(&R, 1, 2);
    bool f; int p = m_find(k->k, k->kl, &f);
    if (api == 2 && f && (ME[p].vl == 0 || ME[p].v[ME[p].vl - 1] != 0 || strlen((char *)ME[p].v) + 1 != ME[p].vl)) api = 1;
    cbuf_t kb = cb_make(k->k, k->kl, rng_below(&R, 4));
    size_t sz = 777; void *d; errno = 0;
    vf_log("get[%d,newmem=%d] k%d", api, newmem, id);
    oom_begin();
    switch (api) {
    case 0: d = T->getobj(T, kb.p, kb.n, optout(&sz, f ? ME[p].vl : sz), newmem); break;
    case 1: d = T->get(T, (char *)kb.p, optout(&sz, f ? ME[p].vl : sz), newmem); break;
    default: d = T->getstr(T, (char *)kb.p, newmem); sz = d ? strlen((char *)d) + 1 : 0; break;
    }
    int e = errno;
    long hits = oom_end();
    cb_drop(&kb);
    if (hits) { OOMCTX = "get"; if (!d) { vf_count("oom_reported_failure", 1); return; } vf_count("oom_completed_despite_failure", 1); }
    vf_count(f ? "get_hit" : "get_miss", 1);
    if (f) {
        if (!d && ME[p].vl) judge("C01", "get-miss", "get of present key %d returned NULL", id);
        else if (!val_ok(d, sz, p)) judge("C01", "get-wrong", "get of key %d: size %zu expected %zu or bytes differ", id, sz, ME[p].vl);
    } else {
        if (d) judge("C01", "get-phantom", "get of absent key %d returned data", id);
        else if (e != ENOENT) judge("C01", "get-errno", "get of absent key %d: errno=%d, expected ENOENT", id, e);
    }
    if (d && newmem) free(d);
}
static void op_remove(int id) {
    ukey_t *k = &UK[id];
    int api = k->is_str ? (int)rng_below(&R, 2) : 0;
    cbuf_t kb = cb_make(k->k, k->kl, rng_below(&R, 4));
    qtreetbl_obj_t *oldroot = T->root;
    bool wasroot = T->root && MCMP(T->root->name, T->root->namesize, k->k, k->kl) == 0;
    bool inner = false;
    { bool f; int p = m_find(k->k, k->kl, &f); (void)p;
      if (f) { qtreetbl_obj_t *o = T->root; while (o) { int c = MCMP(k->k, k->kl, o->name, o->namesize); if (!c) break; o = c < 0 ? o->left : o->right; }
               inner = o && o->right != NULL; } }
    vf_log("remove[%d] k%d=%s", api, id, vf_hex(k->k, k->kl));
    errno = 0;
    oom_begin();
    bool r = api ? T->remove(T, (char *)kb.p) : T->removeobj(T, kb.p, kb.n);
    int e = errno;
    long hits = oom_end();
    cb_drop(&kb);
    if (hits) { OOMCTX = "remove"; bool f0; m_find(k->k, k->kl, &f0); if (!r && f0) { after_mutation(oldroot); vf_count("oom_reported_failure", 1); return; } vf_count("oom_completed_despite_failure", 1); }
    bool m = m_remove(id);
    vf_count(m ? (inner ? "remove_inner_with_successor" : "remove_leaf_or_bottom") : "remove_absent", 1);
    if (m && wasroot) vf_count("remove_root", 1);
    after_mutation(oldroot);
    if (r != m) judge("C01", m ? "remove-present-failed" : "remove-absent-succeeded", "remove of key %d returned %d, model %d", id, r, m);
    else if (!r && e != ENOENT) judge("C01", "remove-errno", "remove of absent key %d: errno=%d", id, e);
}
static void op_clear(void) {
    vf_log("clear");
    T->clear(T); m_clear(); vf_count("clear", 1); root_changed = true;
}
/* re-put of a key with (a prefix of) its own stored bytes, through the pointer a non-copying get handed out */
static void op_reput_internal(int id) {
    ukey_t *k = &UK[id]; bool f; int p = m_find(k->k, k->kl, &f);
    if (!f || ME[p].vl == 0) return;
    size_t sz = 0; void *d = T->getobj(T, k->k, k->kl, &sz, false);
    if (!d || sz != ME[p].vl) { judge("C01", "get-wrong", "non-copying get of key %d: size %zu expected %zu", id, sz, ME[p].vl); return; }
    size_t nl = rng_chance(&R, 1, 4) ? sz : 1 + rng_below(&R, (uint32_t)sz);
    unsigned char *expect = vf_xdup(d, nl);
    vf_log("put k%d with its own stored bytes, length %zu of %zu", id, nl, sz);
    qtreetbl_obj_t *oldroot = T->root;
    bool r = T->putobj(T, k->k, k->kl, d, nl);
    if (!r) judge("C01", "put-failed", "re-put of key %d with its own bytes returned false (errno %d)", id, errno);
    m_put(id, expect, nl); hm_free(expect);
    vf_count("puts_from_the_stored_pointer", 1);
    after_mutation(oldroot);
}
static void op_invalid(void) {
    vf_log("invalid-args");
    errno = 0;
    if (T->putobj(T, NULL, 3, "x", 1) || errno != EINVAL) judge("C01", "einval", "putobj(NULL name) not refused with EINVAL");
    errno = 0;
    if (T->putobj(T, "abc", 0, "x", 1) || errno != EINVAL) judge("C01", "einval", "putobj(namesize 0) not refused with EINVAL");
    errno = 0;
    if (T->getobj(T, NULL, 1, NULL, false) || errno != EINVAL) judge("C01", "einval", "getobj(NULL) not refused with EINVAL");
    errno = 0;
    if (T->removeobj(T, NULL, 1) || errno != EINVAL) judge("C01", "einval", "removeobj(NULL) not refused with EINVAL");
    vf_count("invalid_arg_calls", 4);
}

static void op_minmax(bool mx) {
    size_t ns = 0; errno = 0;
    vf_log("find_%s", mx ? "max" : "min");
    oom_begin();
    void *k = mx ? T->find_max(T, &ns) : T->find_min(T, &ns);
    long hits = oom_end();
    if (hits) { OOMCTX = mx ? "find_max" : "find_min"; if (!k) { vf_count("oom_reported_failure", 1); return; } vf_count("oom_completed_despite_failure", 1); }
    if (MN == 0) { if (k) judge("C01", "find_minmax", "find_min/max on empty table returned a key"); }
    else { ukey_t *e = &UK[ME[mx ? MN - 1 : 0].id]; if (!k || ns != e->kl || memcmp(k, e->k, ns)) judge("C01", "find_minmax", "find_%s returned %s", mx ? "max" : "min", vf_hex(k, k ? ns : 0)); }
    free(k);
}

/* ------------------------------------------------------------------ C03 walks */
static bool cmp_entry(const char *prop, const char *what, qtreetbl_obj_t *o, int mi) {
    ukey_t *k = &UK[ME[mi].id];
    if (!o->name || o->namesize != k->kl || memcmp(o->name, k->k, k->kl)) {
        judge(prop, what, "position %d: got key %s, expected key %d %s", mi, vf_hex(o->name, o->name ? o->namesize : 0), ME[mi].id, vf_hex(k->k, k->kl));
        return false; }
    if (!val_ok(o->data, o->datasize, mi)) {
        judge(prop, what, "position %d key %d: value/size differs (size %zu expected %zu)", mi, ME[mi].id, o->datasize, ME[mi].vl);
        return false; }
    return true;
}
/* limit<0: complete audited walk; otherwise abandon after `limit` elements */
static void op_walk(int limit, bool newmem) {
    qtreetbl_obj_t obj; memset(&obj, 0, sizeof obj);
    int i = 0; bool ended = false;
    uint8_t tid_before = T->tid;
    vf_log("walk[limit=%d,newmem=%d] n=%d tid=%u", limit, newmem, MN, T->tid);
    bool first = true;
    while (limit < 0 || i < limit) {
        vf_cpu_arm_prop("C03", "qtreetbl_getnext", 2000);
        /* a copying walk whose step could not allocate may repeat that step with the same cursor (C03/C04 runs: one step in twelve) */
        bool inject = newmem && (P == 3 || P == 4) && vf_oom_k == 0 && rng_chance(&R, 1, 12);
        if (inject) { vf_oom_k = 1 + (long)rng_below(&R, 2); vf_oom_all = false; }
        oom_begin();
        errno = 0;
        bool r = T->getnext(T, &obj, newmem);
        int ge = errno;
        long hits = oom_end();
        if (inject && hits && !r && ge == ENOMEM) { vf_log("getnext could not allocate: the step is repeated with the same cursor"); vf_count("walk_steps_retried_after_allocation_failure", 1); errno = 0; r = T->getnext(T, &obj, newmem); ge = errno; hits = 0; }
        vf_cpu_disarm();
        if (hits) { OOMCTX = "getnext"; if (!r && ge == ENOMEM) { vf_count("oom_reported_failure", 1); pending_walk = true; return; } vf_count("oom_completed_despite_failure", 1); }
        if (first) {
            first = false;
            if (MN > 0) {
                vf_distinct("epochs", (uint64_t)T->tid + 1);
                if (T->tid < tid_before) vf_count("epoch_wraps", 1);
                if (fresh_insert) vf_count("walks_started_after_fresh_insert", 1);
                if (root_changed) vf_count("walks_started_after_root_change", 1);
                if (pending_walk) vf_count("walks_started_with_walk_pending", 1);
                fresh_insert = root_changed = false;
            }
        }
        if (!r) { ended = true; break; }
        if (i >= MN) { judge("C03", "walk-extra", "walk returned more than the %d stored keys (key %s)", MN, vf_hex(obj.name, obj.namesize)); if (newmem) { free(obj.name); free(obj.data); } return; }
        bool ok = cmp_entry("C03", "walk-order", &obj, i);
        if (newmem) { free(obj.name); free(obj.data); }
        if (!ok) return;
        i++;
    }
    if (ended) {
        pending_walk = false;
        if (i != MN) { judge("C03", "walk-short", "walk ended after %d of %d keys", i, MN); return; }
        vf_count("complete_walks_audited", 1);
        vf_count("walk_elements_compared", i);
        if (P == 3) vf_distinct("distinct", (structure_check(false) ^ USALT) * 257 + T->tid);
    } else {
        pending_walk = true;
        vf_count("abandoned_walks", 1);
    }
}

/* ------------------------------------------------------------------ C04 nearest */
/* cont: 0 no continuation, 1 complete continuation, 2 abandon it after `stop` steps */
static void op_nearest(int id, bool newmem, int cont, int stop) {
    ukey_t *k = &UK[id];
    cbuf_t kb = cb_make(k->k, k->kl, false);
    bool f; int p = m_find(k->k, k->kl, &f);
    int expect = f ? p : (p > 0 ? p - 1 : (MN > 0 ? 0 : -1));
    const char *cls = f ? "probe_equal" : (MN == 0 ? "probe_empty" : (p == 0 ? "probe_below_min" : (p == MN ? "probe_above_max" : "probe_in_gap")));
    vf_log("nearest[newmem=%d,cont=%d/%d] probe k%d=%s n=%d pending=%d", newmem, cont, stop, id, vf_hex(k->k, k->kl), MN, pending_walk);
    vf_cpu_arm_prop("C04", "qtreetbl_find_nearest", 2000);
    errno = 0;
    oom_begin();
    qtreetbl_obj_t obj = T->find_nearest(T, kb.p, kb.n, newmem);
    int e = errno;
    long hits = oom_end();
    vf_cpu_disarm();
    cb_drop(&kb);
    if (hits) { OOMCTX = "find_nearest"; if (obj.name == NULL && obj.data == NULL && e == ENOMEM) { vf_count("oom_reported_failure", 1); return; } vf_count("oom_completed_despite_failure", 1); }
    vf_count(cls, 1); vf_count("probes", 1);
    if (P == 4) vf_distinct("distinct", (structure_check(false) ^ USALT) * 131 + (uint64_t)id);
    if (root_changed) vf_count("probes_after_root_change", 1);
    if (expect < 0) {
        if (obj.name != NULL) { judge("C04", "nearest-on-empty", "find_nearest on empty table returned a key"); return; }
        if (e != ENOENT) { judge("C04", "nearest-errno", "find_nearest on empty table: errno=%d", e); return; }
        return;
    }
    bool ok = cmp_entry("C04", "nearest-wrong", &obj, expect);
    if (newmem) { free(obj.name); free(obj.data); }
    if (!ok || !cont) return;
    /* continuation */
    bool audit = !pending_walk;
    unsigned char *seen = hm_alloc((size_t)MN + 1); memset(seen, 0, (size_t)MN + 1);
    int n = 0; bool ended = false;
    while (cont == 1 || n < stop) {
        vf_cpu_arm_prop("C04", "qtreetbl_getnext(continuation)", 2000);
        bool r = T->getnext(T, &obj, newmem);
        vf_cpu_disarm();
        if (!r) { ended = true; break; }
        bool ff; int mp = m_find(obj.name, obj.namesize, &ff);
        bool bad = !ff || !val_ok(obj.data, obj.datasize, mp);
        if (newmem) { free(obj.name); free(obj.data); }
        if (bad) { if (audit) judge("C04", "continuation-foreign", "continuation returned a key/value that is not stored"); hm_free(seen); return; }
        if (seen[mp] && audit) { judge("C04", "continuation-duplicate", "continuation visited key %d twice", ME[mp].id); hm_free(seen); return; }
        seen[mp] = 1; n++;
        if (n > MN + 1) break;
    }
    if (ended) {
        pending_walk = false;
        if (audit) {
            if (n != MN) judge("C04", "continuation-missed", "continuation visited %d of %d keys", n, MN);
            else vf_count("continuations_audited", 1);
        } else vf_count("continuations_not_judged_walk_pending", 1);
    } else { pending_walk = true; vf_count("continuations_abandoned", 1); }
    hm_free(seen);
}

/* oracles after every mutation / operation depending on the property under test */
static void after_op(bool mutated, int every) {
    if (abandon) return;
    if (P == 1 || P == 11 || P == 15) { if (every <= 1 || (vf_cur_op % every) == 0) content_check(); }
    if (P == 2 || P == 11 || P == 15) { uint64_t s = structure_check(true); if (s) vf_distinct("distinct", s); }
    (void)mutated;
}

/* ------------------------------------------------------------------ phase A: exhaustive shapes */
typedef struct { unsigned char *path; int len; } st_t;
static void replay_path(const unsigned char *path, int len) {
    for (int i = 0; i < len; i++) {
        int id = path[i] & 0x7f;
        if (path[i] & 0x80) { T->removeobj(T, UK[id].k, UK[id].kl); m_remove(id); }
        else { unsigned char v[2] = {(unsigned char)(id + 1), (unsigned char)i}; T->putobj(T, UK[id].k, UK[id].kl, v, 2); m_put(id, v, 2); }
    }
}
/* open-addressing set of shape hashes */
static uint64_t *SH; static size_t SHCAP, SHN;
static bool sh_add(uint64_t h) {
    if (!h) h = 1;
    if ((SHN + 1) * 10 >= SHCAP * 6) {
        size_t oc = SHCAP; uint64_t *ot = SH;
        SHCAP = oc ? oc * 2 : (1 << 16); SH = __real_calloc(SHCAP, 8); SHN = 0;
        if (!SH) exit(2);
        for (size_t i = 0; i < oc; i++) if (ot[i]) sh_add(ot[i]);
        hm_free(ot);
    }
    size_t i = (size_t)(h * 0x9E3779B97F4A7C15ULL >> 17) & (SHCAP - 1);
    while (SH[i]) { if (SH[i] == h) return false; i = (i + 1) & (SHCAP - 1); }
    SH[i] = h; SHN++;
    return true;
}

static void exhaustive_transition_oracle(int opid) {
    /* the operation has just been applied; evaluate the property's oracle on the new state */
    switch (P) {
    case 1: case 11: content_check(); if (P == 11) structure_check(true); break;
    case 2: { structure_check(true);
              for (int id = 0; id < NU && !abandon; id++) lookup_cost_check(id); break; }
    case 3: { /* arbitrary iterator history, then an audited walk */
              int h = (int)rng_below(&R, 4);
              if (h == 1 && MN > 0) op_walk((int)rng_below(&R, (uint32_t)MN), rng_chance(&R, 1, 2));
              if (h == 2) op_nearest((int)rng_below(&R, (uint32_t)NU), false, 0, 0);
              if (h == 3 && MN > 0) op_nearest((int)rng_below(&R, (uint32_t)NU), false, 2, (int)rng_below(&R, (uint32_t)MN));
              if (!abandon) op_walk(-1, rng_chance(&R, 1, 2));
              break; }
    case 4: { int h = (int)rng_below(&R, 3);
              if (h == 1 && MN > 0) { op_walk(-1, false); }
              if (h == 2 && MN > 0) { op_walk((int)rng_below(&R, (uint32_t)MN), false); }
              for (int id = 0; id < NU && !abandon; id++) {
                  int cont = (int)rng_below(&R, 4);   /* 0,1: none  2: complete  3: abandoned */
                  op_nearest(id, rng_chance(&R, 1, 3), cont < 2 ? 0 : cont - 1, MN ? (int)rng_below(&R, (uint32_t)MN) : 0);
              }
              break; }
    }
    (void)opid;
}

/* (ordering, key class) of a bounded-exhaustive configuration: the library's own default comparator (ordering 0) is paired with the key
 * classes in which its size tie-break matters (len-twins: proper prefixes without a terminator; binary with embedded NULs; prefix family) */
static int cfg_kcls(int cfg) {
    static const int KC[16] = {5, 0, 1, 2, 3, 6, 3, 4, 5, 0, 1, 6, 2, 5, 3, 4};
    int k = cfg < 16 ? KC[cfg] : (cfg / NORD + cfg) % NKCLS;
    if (cfg % NORD == ORD_CI) k = KCLS_ALIAS; else if (k == KCLS_ALIAS) k = 1;
    return k;
}
static void phase_exhaustive(int U) {
    int cfg = VF.shard;
    ORDI = cfg % NORD;
    int kcls = cfg_kcls(cfg);
    long caseno = 1000000000L + cfg;            /* one pseudo-case per configuration */
    if (VF.only_case >= 0 && VF.only_case != caseno) return;
    if (VF.only_case < 0 && VF.start_case > caseno) return;
    rng_seed(&R, VF.seed, (uint64_t)caseno);
    int extra = (P == 4) ? 3 : 0;               /* probe-only keys */
    universe_make(&R, kcls, U + extra);
    if (NU < U + extra) U = NU - extra;
    if (extra) {   /* the least and greatest key of the universe plus one other are never stored */
        int mn = 0, mx = 0;
        for (int i = 1; i < NU; i++) { if (ORD[ORDI].model(UK[i].k, UK[i].kl, UK[mn].k, UK[mn].kl) < 0) mn = i;
                                       if (ORD[ORDI].model(UK[i].k, UK[i].kl, UK[mx].k, UK[mx].kl) > 0) mx = i; }
        UK[mn].probe_only = UK[mx].probe_only = true;
        for (int i = 0, c = 0; i < NU && c < extra - 2; i++) if (!UK[i].probe_only) { UK[i].probe_only = true; c++; }
    }
    vf_case_begin(caseno, "exhaustive shapes: U=%d ordering=%s keyclass=%s", U, ORD[ORDI].name, KCLS[kcls]);
    vf_sample("exhaustive BFS over LLRB shapes: %d keys, ordering=%s, key class=%s, e.g. key0=%s key1=%s", U, ORD[ORDI].name, KCLS[kcls], vf_hex(UK[0].k, UK[0].kl), vf_hex(UK[1].k, UK[1].kl));
    int ids[128], nid = 0;
    for (int i = 0; i < NU; i++) if (!UK[i].probe_only) ids[nid++] = i;

    st_t *Q = hm_alloc(sizeof(st_t) * 1024); size_t qcap = 1024, qn = 0, qh = 0;
    Q[qn].path = hm_alloc(1); Q[qn].len = 0; qn++;
    SH = NULL; SHCAP = SHN = 0;
    ORDI = cfg % NORD;
    table_new(); sh_add(structure_check(false)); table_free();
    long transitions = 0;
    while (qh < qn) {
        st_t s = Q[qh++];
        for (int o = 0; o < 2 * nid; o++) {
            int id = ids[o % nid]; bool rem = o >= nid;
            table_new();
            replay_path(s.path, s.len);
            /* log only the path + op (cheap, and exactly what a replay needs) */
            vf_cur_op = 0;
            vf_case_begin(caseno, "exhaustive U=%d ordering=%s keyclass=%s state#%zu pathlen=%d op=%s k%d", U, ORD[ORDI].name, KCLS[kcls], qh - 1, s.len, rem ? "remove" : "put", id);
            { char pb[400]; int n = 0; for (int i = 0; i < s.len && n < 380; i++) n += snprintf(pb + n, sizeof pb - (size_t)n, "%c%d ", (s.path[i] & 0x80) ? '-' : '+', s.path[i] & 0x7f); pb[n] = 0; vf_log("path: %s", pb); }
            if (rem) op_remove(id); else op_put(id);
            transitions++;
            vf_count("evaluations", 1);
            if (!abandon) exhaustive_transition_oracle(o);
            uint64_t sh = abandon ? 0 : structure_check(false);
            if (!abandon && sh_add(sh)) {
                if (qn == qcap) { qcap *= 2; Q = vf_xrealloc(Q, sizeof(st_t) * qcap); }
                Q[qn].path = hm_alloc((size_t)s.len + 1); memcpy(Q[qn].path, s.path, (size_t)s.len);
                Q[qn].path[s.len] = (unsigned char)(id | (rem ? 0x80 : 0)); Q[qn].len = s.len + 1; qn++;
                vf_distinct((P == 4 || P == 3) ? "shapes" : "distinct", sh ^ USALT);
                vf_max("max_path_len", s.len + 1);
            }
            table_free();
            if (P == 11 && vf_san_poll()) { /* recorded */ }
            if (vf_nviol >= 30) goto out;
        }
        /* C02 also covers operations that FAIL: a put whose k-th allocation fails must leave a valid tree */
        if (P == 2) for (int o = 0; o < nid; o++) for (long k = 1; k <= 3; k++) {
            table_new(); replay_path(s.path, s.len);
            vf_case_begin(caseno, "exhaustive U=%d ordering=%s keyclass=%s state#%zu pathlen=%d failing put k%d (allocation %ld fails)", U, ORD[ORDI].name, KCLS[kcls], qh - 1, s.len, ids[o], k);
            { char pb[400]; int n = 0; for (int i = 0; i < s.len && n < 380; i++) n += snprintf(pb + n, sizeof pb - (size_t)n, "%c%d ", (s.path[i] & 0x80) ? '-' : '+', s.path[i] & 0x7f); pb[n] = 0; vf_log("path: %s", pb); }
            vf_oom_k = k; vf_oom_all = false;
            op_put(ids[o]);
            vf_count("evaluations", 1);
            if (vf_oom_last_hits) vf_count("failed_or_fault_injected_puts_checked", 1);
            if (!abandon) structure_check(true);
            table_free();
            if (vf_nviol >= 30) goto out;
        }
        /* ... and a remove during which every allocation fails (today's remove allocates nothing; a remove that copies the successor would) */
        if (P == 2) for (int o = 0; o < nid; o++) {
            table_new(); replay_path(s.path, s.len);
            vf_case_begin(caseno, "exhaustive U=%d ordering=%s keyclass=%s state#%zu pathlen=%d remove k%d with every allocation failing", U, ORD[ORDI].name, KCLS[kcls], qh - 1, s.len, ids[o]);
            { char pb[400]; int n = 0; for (int i = 0; i < s.len && n < 380; i++) n += snprintf(pb + n, sizeof pb - (size_t)n, "%c%d ", (s.path[i] & 0x80) ? '-' : '+', s.path[i] & 0x7f); pb[n] = 0; vf_log("path: %s", pb); }
            vf_oom_k = 1; vf_oom_all = true;
            op_remove(ids[o]);
            vf_count("evaluations", 1); vf_count("removes_with_allocations_failing_checked", 1);
            if (!abandon) structure_check(true);
            table_free();
            if (vf_nviol >= 30) goto out;
        }
    }
out:
    vf_count("exhaustive_transitions", transitions);
    vf_count("exhaustive_shapes", (long)SHN);
    vf_count("exhaustive_configs_completed", qh >= qn ? 1 : 0);
    for (size_t i = 0; i < qn; i++) hm_free(Q[i].path);
    hm_free(Q); hm_free(SH); SH = NULL;
    universe_free();
}

/* ------------------------------------------------------------------ phase B: random histories */
static int pick_key(void) {
    /* bias: existing keys, the root, min, max */
    uint32_t c = rng_below(&R, 10);
    if (MN > 0 && c < 2) return ME[rng_below(&R, (uint32_t)MN)].id;
    if (MN > 0 && c == 2) return ME[0].id;
    if (MN > 0 && c == 3) return ME[MN - 1].id;
    if (T->root && c == 4) { int id = node_id(T->root); if (id >= 0) return id; }
    for (int t = 0; t < 8; t++) { int id = (int)rng_below(&R, (uint32_t)NU); if (!UK[id].probe_only) return id; }
    return ME && MN ? ME[0].id : 0;
}

static void history(long caseno) {
    rng_seed(&R, VF.seed, (uint64_t)caseno);
    ORDI = (int)rng_below(&R, NORD);
    if (P == 2 && ORDI == 0) ORDI = 1;           /* cost is only observable through an installed comparator */
    int kcls = (int)rng_below(&R, NKCLS);
    if (ORDI == ORD_CI && rng_chance(&R, 2, 3)) kcls = KCLS_ALIAS;
    if (ORDI == 0 && rng_chance(&R, 1, 2)) kcls = (int[]){5, 3, 2}[rng_below(&R, 3)];     /* the default comparator with keys whose order hangs on its size tie-break */
    static const int US[] = {4, 16, 64, 1024};
    int U = US[rng_below(&R, 4)];
    int nops = VF.thorough ? 5000 : 2000;
    if (P == 3) { U = US[rng_below(&R, 3)]; nops = 1400; }
    if (kcls == 0 && U > 200) kcls = 3;
    if (kcls == 4 && U == 4) kcls = 1;
    if (kcls == KCLS_ALIAS && U > 64) U = 64;
    if (kcls == KCLS_ALIAS) vf_count("histories_with_alias_spellings", 1);
    universe_make(&R, kcls, U);
    if (P == 4) for (int i = 0; i < NU / 4 + 1; i++) UK[rng_below(&R, (uint32_t)NU)].probe_only = true;
    bool alluniverse_probe_only = true; for (int i = 0; i < NU; i++) if (!UK[i].probe_only) alluniverse_probe_only = false;
    if (alluniverse_probe_only) UK[0].probe_only = false;
    vf_case_begin(caseno, "random history: U=%d ordering=%s keyclass=%s ops=%d", NU, ORD[ORDI].name, KCLS[kcls], nops);
    table_new();
    int every = NU <= 64 ? 1 : 16;
    /* C02: deletion-heavy phases on large tables */
    bool delheavy = (P == 2) && rng_chance(&R, 1, 3);
    if ((caseno & 1) && P != 15) decoy_new();
    for (int op = 0; op < nops && !abandon; op++) {
        uint32_t c = rng_below(&R, 100);
        bool mut = false;
        if (DECOY && rng_chance(&R, 1, 3)) decoy_step();
        if (delheavy) {
            int phase = (op * 6 / nops) & 1;     /* fill, drain, fill, drain ... */
            if (phase == 0) { op_put(pick_key()); mut = true; }
            else if (MN > 0) { int how = (op / 97) % 4;
                int id = how == 0 ? ME[0].id : how == 1 ? ME[MN - 1].id : how == 2 ? ME[rng_below(&R, (uint32_t)MN)].id : ((op & 1) ? ME[0].id : ME[MN - 1].id);
                op_remove(id); mut = true; }
            else { op_put(pick_key()); mut = true; }
        } else if (P == 3) {
            if (c < 18) { op_put(pick_key()); mut = true; }
            else if (c < 30) { op_remove(pick_key()); mut = true; }
            else if (c < 60) op_walk(-1, rng_chance(&R, 1, 4));
            else if (c < 75) { if (MN > 0) op_walk((int)rng_below(&R, (uint32_t)MN + 1), rng_chance(&R, 1, 4)); }
            else if (c < 82) op_nearest((int)rng_below(&R, (uint32_t)NU), rng_chance(&R, 1, 4), 0, 0);
            else if (c < 88) op_nearest((int)rng_below(&R, (uint32_t)NU), false, 1, 0);
            else if (c < 92) { if (MN > 0) op_nearest((int)rng_below(&R, (uint32_t)NU), false, 2, (int)rng_below(&R, (uint32_t)MN)); }
            else if (c < 93 && rng_chance(&R, 1, 6)) { op_clear(); mut = true; }
            else { /* insert a fresh key (or remove the root) and walk at once */
                if (c < 97) { int id = -1; for (int t = 0; t < 20; t++) { int x = (int)rng_below(&R, (uint32_t)NU); bool f; m_find(UK[x].k, UK[x].kl, &f); if (!f) { id = x; break; } }
                              if (id >= 0) op_put(id); }
                else if (T->root) { int id = node_id(T->root); if (id >= 0) op_remove(id); }
                mut = true;
                if (!abandon) op_walk(-1, false);
            }
        } else if (P == 4) {
            if (c < 22) { op_put(pick_key()); mut = true; }
            else if (c < 40) { op_remove((T->root && rng_chance(&R, 1, 3)) ? (node_id(T->root) >= 0 ? node_id(T->root) : pick_key()) : pick_key()); mut = true; }
            else if (c < 60) op_nearest((int)rng_below(&R, (uint32_t)NU), rng_chance(&R, 1, 4), 0, 0);
            else if (c < 78) op_nearest((int)rng_below(&R, (uint32_t)NU), rng_chance(&R, 1, 4), 1, 0);
            else if (c < 84) { if (MN > 0) op_nearest((int)rng_below(&R, (uint32_t)NU), false, 2, (int)rng_below(&R, (uint32_t)MN)); }
            else if (c < 92) op_walk(-1, false);
            else if (c < 98) { if (MN > 0) op_walk((int)rng_below(&R, (uint32_t)MN + 1), false); }
            else if (rng_chance(&R, 1, 8)) { op_clear(); mut = true; }
        } else {   /* C01 / C02 / C11 */
            if (c < 40) { if ((P == 1 || P == 2) && rng_chance(&R, 1, 12)) { vf_oom_k = 1 + rng_below(&R, 3); vf_oom_all = false; vf_count("puts_with_injected_allocation_failure", 1); } op_put(pick_key()); mut = true; }
            else if (c < 65) { op_remove(pick_key()); mut = true; }
            else if (c < 92) op_get(pick_key());
            else if (c < 94) { vf_log("size"); if (T->size(T) != (size_t)MN) judge("C01", "size", "size()=%zu model=%d", T->size(T), MN); }
            else if (c < 95) { if (rng_chance(&R, 1, 6)) { op_clear(); mut = true; } else op_get(pick_key()); }
            else if (c < 96) { if (rng_chance(&R, 1, 2)) op_invalid(); else { op_reput_internal(pick_key()); mut = true; } }
            else if (P == 11 && c < 98) op_walk(-1, rng_chance(&R, 1, 2));
            else if (P == 11) op_nearest((int)rng_below(&R, (uint32_t)NU), rng_chance(&R, 1, 2), 1, 0);
            else op_get(pick_key());
        }
        vf_count("evaluations", 1);
        after_op(mut, every);
        if (P == 2 && !abandon && (op % 8) == 0) for (int s = 0; s < 4 && !abandon; s++) lookup_cost_check((int)rng_below(&R, (uint32_t)NU));
        if ((P == 1 || P == 11) && (op & 7) == 0 && NU <= 64) vf_distinct("distinct", structure_check(false) ^ USALT);
        if (P == 11 && (op & 15) == 0 && vf_san_poll()) break;
    }
    vf_max("max_keys_in_table", MN);
    if (!abandon) vf_count("histories_completed", 1); else vf_count("histories_abandoned", 1);
    if (caseno < 3 && !abandon) vf_sample("random history #%ld: U=%d ordering=%s keyclass=%s ops=%d final_keys=%d", caseno, NU, ORD[ORDI].name, KCLS[kcls], nops, MN);
    decoy_free();
    table_free();
    if (P == 11) vf_san_poll();
    m_clear();
    universe_free();
}

/* C03 directed epoch sweep: between two audited complete walks the 8-bit travel id is advanced by exactly k
 * traversal starts of a chosen kind (nearest-key searches, searches with an abandoned continuation, abandoned
 * zero-cursor walks, searches with a completed continuation), for every k of a range around one and two
 * wraps - so the wrap is caused by each kind of start in turn and stale marks of the last complete walk meet
 * every id value */
static void epoch_sweep(long caseno, int kind, int k) {
    rng_seed(&R, VF.seed, (uint64_t)caseno);
    ORDI = (int)rng_below(&R, NORD); int kcls = 1 + (int)rng_below(&R, 2);
    universe_make(&R, kcls, 12 + (int)rng_below(&R, 24));
    static const char *KN[] = {"nearest searches", "searches + abandoned continuation", "abandoned zero-cursor walks", "searches + completed continuation", "mixed"};
    vf_case_begin(caseno, "epoch sweep: %d x [%s] between audited walks, %d keys, ordering=%s", k, KN[kind], NU, ORD[ORDI].name);
    table_new();
    for (int i = 0; i < NU && !abandon; i++) if (i % 4 != 3) op_put(i);
    for (int round = 0; round < 4 && !abandon; round++) {
        op_walk(-1, round & 1);
        for (int j = 0; j < k && !abandon; j++) {
            int id = (int)rng_below(&R, (uint32_t)NU); int kd = kind == 4 ? (int)rng_below(&R, 4) : kind;
            switch (kd) {
            case 0: op_nearest(id, false, 0, 0); break;
            case 1: if (MN > 1) op_nearest(id, false, 2, 1 + (int)rng_below(&R, 3)); break;
            case 2: if (MN > 1) op_walk((int)rng_below(&R, (uint32_t)(MN < 5 ? MN : 5)), false); break;
            default: op_nearest(id, false, 1, 0); break;
            }
        }
        if (abandon) break;
        /* a few mutations, then the audited walk of the next round */
        for (int m = 0; m < 3 && !abandon; m++) { int id = (int)rng_below(&R, (uint32_t)NU); if (rng_chance(&R, 1, 2)) op_put(id); else op_remove(id); }
        vf_count("evaluations", 1);
    }
    if (!abandon) op_walk(-1, false);
    vf_count(abandon ? "histories_abandoned" : "epoch_sweep_histories", 1);
    table_free(); m_clear(); universe_free();
}

/* C03 directed: a long abandoned walk, then exactly m minimal traversal starts (the epoch comes back to the value the long walk used),
 * then an audited walk; on a fresh table (stamps all 0), after a complete walk, and with a put/remove after the long walk */
static void epoch_return(long caseno, int m, int variant) {
    rng_seed(&R, VF.seed, (uint64_t)caseno);
    ORDI = (int)rng_below(&R, NORD); int kcls = 1 + (int)rng_below(&R, 2);
    universe_make(&R, kcls, 14 + (int)rng_below(&R, 10));
    vf_case_begin(caseno, "epoch return: long abandoned walk + %d minimal starts, variant %d, %d keys, ordering=%s", m, variant, NU, ORD[ORDI].name);
    table_new();
    for (int i = 0; i < NU && !abandon; i++) op_put(i);
    for (int L = 2; L < MN && !abandon; L += 1 + (int)rng_below(&R, 3)) {
        if (variant == 1) op_walk(-1, false);
        op_walk(L, (L & 1) != 0);                                   /* abandoned after L keys */
        if (variant == 2 && !abandon) { int id = (int)rng_below(&R, (uint32_t)NU); op_remove(id); if (!abandon) op_put(id); }
        for (int j = 0; j < m && !abandon; j++) { if (variant == 3 && (j & 1)) op_nearest((int)rng_below(&R, (uint32_t)NU), false, 0, 0); else op_walk(1, false); }
        if (!abandon) op_walk(-1, false);                           /* audited */
        if (!abandon) op_walk(-1, true);
        vf_count("evaluations", 1);
    }
    vf_count(abandon ? "histories_abandoned" : "epoch_return_histories", 1);
    table_free(); m_clear(); universe_free();
}

/* C02 thorough: very large tables */
static void big_history(long caseno, int n) {
    rng_seed(&R, VF.seed, (uint64_t)caseno);
    ORDI = 1 + (int)rng_below(&R, NORD - 1);
    universe_make(&R, 3, n);
    vf_case_begin(caseno, "big table: n=%d ordering=%s", NU, ORD[ORDI].name);
    table_new();
    int order = (int)rng_below(&R, 3);
    for (int i = 0; i < NU && !abandon; i++) { op_put(order == 0 ? i : order == 1 ? NU - 1 - i : (int)rng_below(&R, (uint32_t)NU));
        if ((i & 63) == 0) structure_check(true); vf_count("evaluations", 1); }
    for (int s = 0; s < 2000 && !abandon; s++) lookup_cost_check((int)rng_below(&R, (uint32_t)NU));
    int how = (int)rng_below(&R, 4);
    for (int i = 0; MN > 0 && !abandon; i++) {
        int id = how == 0 ? ME[0].id : how == 1 ? ME[MN - 1].id : how == 2 ? ME[rng_below(&R, (uint32_t)MN)].id : ((i & 1) ? ME[0].id : ME[MN - 1].id);
        op_remove(id); vf_count("evaluations", 1);
        if ((i & 31) == 0) { structure_check(true); for (int s = 0; s < 8 && !abandon; s++) lookup_cost_check((int)rng_below(&R, (uint32_t)NU)); }
        if (MN == NU / 2 && how == 2) break;
    }
    vf_max("max_keys_in_table", NU);
    vf_count(abandon ? "histories_abandoned" : "histories_completed", 1);
    table_free(); m_clear(); universe_free();
}

/* ------------------------------------------------------------------ C15: allocation-failure enumeration
 * for every shape of the exhaustive corpus (U keys) x every allocating operation x every key x
 * failure at the k-th allocation (k = 1..K measured by a dry run; single failure and all-subsequent):
 * the call must complete correctly or report failure with contents unchanged; invariants, a battery of
 * normal operations and the ledger at free() are checked afterwards. */
enum { OO_PUT, OO_REMOVE, OO_GET, OO_WALK, OO_NEAREST, OO_MIN, OO_MAX, OO_N };
static const char *OON[] = {"put", "remove", "get(newmem)", "getnext(newmem)", "find_nearest(newmem)", "find_min", "find_max"};
static void oom_do(int o, int id) {
    switch (o) {
    case OO_PUT: op_put(id); break;
    case OO_REMOVE: op_remove(id); break;
    case OO_GET: { ukey_t *k = &UK[id]; bool f; int p = m_find(k->k, k->kl, &f); size_t sz = 0; vf_log("getobj(newmem) k%d", id);
        oom_begin(); void *d = T->getobj(T, k->k, k->kl, &sz, true); long hits = oom_end();
        if (hits) { OOMCTX = "get"; if (!d) { vf_count("oom_reported_failure", 1); break; } vf_count("oom_completed_despite_failure", 1); }
        if (f ? !val_ok(d, sz, p) : d != NULL) judge("C01", "get-wrong", "get(newmem) of key %d wrong", id);
        free(d); break; }
    case OO_WALK: op_walk(-1, true); break;
    case OO_NEAREST: op_nearest(id, true, 0, 0); break;
    case OO_MIN: op_minmax(false); break;
    case OO_MAX: op_minmax(true); break;
    }
}
static void oom_battery(void) {   /* normal operations afterwards must behave */
    for (int i = 0; i < 6 && !abandon; i++) { int id = (int)rng_below(&R, (uint32_t)NU); uint32_t c = rng_below(&R, 4);
        if (c == 0) op_put(id); else if (c == 1) op_remove(id); else if (c == 2) op_get(id); else op_walk(-1, false);
        if (!abandon) { content_check(); if (!abandon) structure_check(true); } }
}
static void *oom_probe_main(void *m) { int r = pthread_mutex_trylock(m); if (r == 0) pthread_mutex_unlock(m); return (void *)(intptr_t)r; }
static bool oom_lock_left_held(void) {
    if (!T->qmutex) return false;
    pthread_t t; void *r = NULL; if (pthread_create(&t, NULL, oom_probe_main, T->qmutex)) return false; pthread_join(t, &r);
    vf_count("lock_probes_from_a_second_thread", 1);
    return (intptr_t)r != 0;
}
static void phase_oom(int U) {
    int cfg = VF.shard;
    ORDI = cfg % NORD;
    int kcls = cfg_kcls(cfg);
    long caseno = 2000000000L + cfg;
    if (VF.only_case >= 0 && VF.only_case != caseno) return;
    if (VF.only_case < 0 && VF.start_case > caseno) return;
    rng_seed(&R, VF.seed, (uint64_t)caseno);
    universe_make(&R, kcls, U);
    vf_case_begin(caseno, "OOM enumeration over all shapes: U=%d ordering=%s keyclass=%s", NU, ORD[ORDI].name, KCLS[kcls]);
    vf_sample("allocation-failure enumeration: every LLRB shape over %d keys (ordering=%s, key class=%s) x op{put,remove,get,getnext,find_nearest,find_min,find_max} x key x k-th allocation failing (single / all-subsequent)", NU, ORD[ORDI].name, KCLS[kcls]);
    st_t *Q = hm_alloc(sizeof(st_t) * 1024); size_t qcap = 1024, qn = 0, qh = 0;
    Q[qn].path = hm_alloc(1); Q[qn].len = 0; qn++;
    SH = NULL; SHCAP = SHN = 0;
    table_new(); sh_add(structure_check(false)); table_free();
    while (qh < qn && vf_nviol < 30) {
        st_t s = Q[qh++];
        /* successors (no injection) */
        for (int o = 0; o < 2 * NU; o++) {
            int id = o % NU; bool rem = o >= NU;
            table_new(); replay_path(s.path, s.len);
            if (rem) { T->removeobj(T, UK[id].k, UK[id].kl); m_remove(id); } else { unsigned char v[2] = {1, 2}; T->putobj(T, UK[id].k, UK[id].kl, v, 2); m_put(id, v, 2); }
            uint64_t sh = structure_check(false);
            if (sh_add(sh)) { if (qn == qcap) { qcap *= 2; Q = vf_xrealloc(Q, sizeof(st_t) * qcap); }
                Q[qn].path = hm_alloc((size_t)s.len + 1); memcpy(Q[qn].path, s.path, (size_t)s.len); Q[qn].path[s.len] = (unsigned char)(id | (rem ? 0x80 : 0)); Q[qn].len = s.len + 1; qn++; }
            P = 0; table_free(); P = 15;
        }
        /* fault enumeration on this shape */
        for (int o = 0; o < OO_N; o++) for (int id = 0; id < NU; id++) {
            if ((o == OO_WALK || o == OO_MIN || o == OO_MAX) && id > 0) continue;
            /* dry run to measure K */
            table_new(); replay_path(s.path, s.len);
            vf_case_begin(caseno, "OOM state#%zu pathlen=%d op=%s k%d (dry run)", qh - 1, s.len, OON[o], id);
            oom_do(o, id);
            long K = vf_oom_last_allocs;
            if (o == OO_WALK) K = 2L * MN;     /* a complete walk with copies allocates twice per element */
            table_free();
            if (abandon) continue;
            vf_max("max_allocations_in_one_call", K);
            for (long k = 1; k <= K && k <= 24; k++) for (int all = 0; all < 2; all++) {
                TREE_OPT = ((qh + (size_t)o + (size_t)id + (size_t)k) & 1) ? QTREETBL_THREADSAFE : 0;
                table_new(); TREE_OPT = 0; replay_path(s.path, s.len);
                vf_case_begin(caseno, "OOM state#%zu pathlen=%d op=%s k%d fail k=%ld %s", qh - 1, s.len, OON[o], id, k, all ? "all-subsequent" : "single");
                { char pb[400]; int n = 0; for (int i = 0; i < s.len && n < 380; i++) n += snprintf(pb + n, sizeof pb - (size_t)n, "%c%d ", (s.path[i] & 0x80) ? '-' : '+', s.path[i] & 0x7f); pb[n] = 0; vf_log("path: %s", pb); }
                if (o == OO_WALK) {   /* k counts allocations across the whole walk: fail inside the ceil(k/2)-th step */
                    qtreetbl_obj_t obj; memset(&obj, 0, sizeof obj); long done = 0; int i = 0; bool reported = false;
                    vf_log("walk(newmem) with allocation %ld failing", k);
                    while (1) { long before = vf_alloc_calls; if (k - done >= 1 && k - done <= 2) { vf_oom_k = k - done; vf_oom_all = all; }
                        oom_begin(); errno = 0; bool r = T->getnext(T, &obj, true); int ge = errno; long hits = oom_end(); done += vf_alloc_calls - before;
                        if (hits) { OOMCTX = "getnext"; if (!r && ge == ENOMEM) { vf_count("oom_reported_failure", 1); reported = true;
                                /* the failed step may be repeated with the same cursor: the walk must then go on as if nothing had happened */
                                vf_log("retry of the failed getnext with the same cursor"); errno = 0; r = T->getnext(T, &obj, true); vf_count("oom_walk_steps_retried", 1);
                                if (!r && i < MN) { judge("C03", "walk-short", "after a reported allocation failure the repeated getnext ended the walk at %d of %d", i, MN); break; } }
                            else vf_count("oom_completed_despite_failure", 1); }
                        if (!r) break;
                        if (i >= MN) { judge("C03", "walk-extra", "walk returned too many"); break; }
                        bool ok = cmp_entry("C03", "walk-order", &obj, i); free(obj.name); free(obj.data); if (!ok) break; i++; }
                    if (!abandon && i != MN) judge("C03", "walk-short", "walk with one injected (and retried) allocation failure delivered %d of %d keys", i, MN);
                    (void)reported;
                } else { vf_oom_k = k; vf_oom_all = all; oom_do(o, id); }
                vf_count("evaluations", 1); vf_count("fault_positions_injected", 1);
                vf_distinct("distinct", (structure_check(false) ^ USALT) * 4099 + (uint64_t)(o * 64 + id) * 64 + (uint64_t)k * 2 + (uint64_t)all);
                { char nm[64]; snprintf(nm, sizeof nm, "qtreetbl.%s", OON[o]); vf_name("operations_covered", nm); }
                if (!abandon && oom_lock_left_held()) { judge("C15", "lock-held-after-failure", "%s returned under an injected allocation failure with the table lock still held: a second thread can not take it", OON[o]); }
                if (!abandon) { content_check(); if (!abandon) structure_check(true); }
                if (!abandon) oom_battery();
                table_free();
                vf_san_poll();
            }
        }
    }
    vf_count("oom_shapes_enumerated", (long)qh);
    for (size_t i = 0; i < qn; i++) hm_free(Q[i].path);
    hm_free(Q); hm_free(SH); SH = NULL;
    universe_free();
}

int main(int argc, char **argv) {
    vf_init(argc, argv, "h_tree");
    vf_errno_entry = 1; vf_op_budget_ms = VF.thorough ? 120000 : 10000;   /* stale errno on entry of every logged operation; a call that never returns is hang:operation */
    vf_errno_noise_every = 5;   /* every fifth case: successful allocations leave errno = ENOMEM behind (glibc does when brk fails) */
    P = atoi(VF.prop + 1);
    if (P != 1 && P != 2 && P != 3 && P != 4 && P != 11 && P != 15) { fprintf(stderr, "h_tree: unsupported property %s\n", VF.prop); return 2; }
    vf_ledger_enable(true);
    int U = (int)vf_arg_long("universe", 9);
    long ncases = vf_arg_long("cases", 300);
    bool do_ex = vf_arg_long("exhaustive", 1) != 0;
    if (P == 15) { phase_oom(U); return vf_finish() ? 1 : 0; }
    if (do_ex && (VF.only_case < 0 || VF.only_case >= 1000000000L)) phase_exhaustive(U);
    for (long c = 0; c < ncases; c++) if (vf_mine(c)) history(c);
    if (P == 3 || P == 4) {   /* k = 1..300 (thorough) or 225..290 plus a coarse grid (quick), 5 kinds of traversal start */
        long c = 700000;
        for (int kind = 0; kind < 5; kind++) for (int k = 1; k <= 300; k++, c++) {
            if (!VF.thorough && !(k >= 225 && k <= 290) && (k % 16)) continue;
            if (vf_mine(c)) epoch_sweep(c, kind, k);
        }
    }
    if (P == 3 || P == 4) {
        static const int MS[] = {252, 253, 254, 255, 256, 257, 508, 509, 510, 511, 512};
        long c = 800000;
        for (int variant = 0; variant < 4; variant++) for (int mi = 0; mi < 11; mi++, c++) if (vf_mine(c)) epoch_return(c, MS[mi], variant);
    }
    long nbig = vf_arg_long("big", 0);
    for (long c = 0; c < nbig; c++) if (vf_mine(500000 + c)) big_history(500000 + c, (int)vf_arg_long("bign", 20000));
    return vf_finish() ? 1 : 0;
}
