/* wrap_lock.c - link-time interposers for the lock primitives qLibc uses
 * (Q_MUTEX_ENTER = pthread_mutex_trylock in a bounded spin with usleep(1);
 *  Q_MUTEX_LEAVE = pthread_mutex_unlock): per-thread lock-depth monitor for
 * registered container mutexes, and scheduling points for the schedule injector.
 * The harness's own synchronisation must use the __real_ symbols.
 */
#define _GNU_SOURCE
#include "vfc.h"
#include "vflock.h"
#include <pthread.h>
#include <unistd.h>

int __real_pthread_mutex_trylock(pthread_mutex_t *);
int __real_pthread_mutex_unlock(pthread_mutex_t *);
int __real_usleep(useconds_t);

#define MAXREG 8
static void *volatile REG[MAXREG];
static __thread int DEPTH[MAXREG];
volatile int vf_usleep_fast;
volatile int vf_spin_abort;       /* terminate a thread that still spins on a registered mutex (harness gives up on it) */
volatile long vf_trylock_calls, vf_trylock_busy, vf_unlock_calls, vf_usleep_calls;

static int reg_index(void *m) { for (int i = 0; i < MAXREG; i++) if (REG[i] == m) return i; return -1; }
int vf_lock_register(void *m) {
    for (int i = 0; i < MAXREG; i++) if (REG[i] == NULL) { REG[i] = m; return i; }
    return -1;
}
void vf_lock_unregister(void *m) { int i = reg_index(m); if (i >= 0) REG[i] = NULL; }
void vf_lock_unregister_all(void) { for (int i = 0; i < MAXREG; i++) REG[i] = NULL; }
int vf_lock_depth(void *m) { int i = reg_index(m); return i >= 0 ? DEPTH[i] : 0; }
void vf_lock_depth_reset(void *m) { int i = reg_index(m); if (i >= 0) DEPTH[i] = 0; }

int __wrap_pthread_mutex_trylock(pthread_mutex_t *m) {
    int i = reg_index(m);
    if (i < 0) return __real_pthread_mutex_trylock(m);
    void (*sp)(int, void *) = vf_sched_point;
    if (sp && DEPTH[i] == 0) sp(VF_PT_TRYLOCK, m);          /* outermost acquire: scheduling point (may park) */
    int r = __real_pthread_mutex_trylock(m);
    __atomic_add_fetch(&vf_trylock_calls, 1, __ATOMIC_RELAXED);
    if (r == 0) DEPTH[i]++; else { __atomic_add_fetch(&vf_trylock_busy, 1, __ATOMIC_RELAXED); if (vf_spin_abort) pthread_exit(NULL); }
    if (sp && r == 0 && DEPTH[i] == 1) sp(VF_PT_LOCKED, m);
    return r;
}
int __wrap_pthread_mutex_unlock(pthread_mutex_t *m) {
    int i = reg_index(m);
    if (i < 0) return __real_pthread_mutex_unlock(m);
    int r = __real_pthread_mutex_unlock(m);
    __atomic_add_fetch(&vf_unlock_calls, 1, __ATOMIC_RELAXED);
    if (r == 0) DEPTH[i]--;
    void (*sp)(int, void *) = vf_sched_point;
    if (sp && r == 0 && DEPTH[i] == 0) sp(VF_PT_UNLOCKED, m);   /* outermost release: scheduling point */
    return r;
}
int __wrap_usleep(useconds_t us) {
    __atomic_add_fetch(&vf_usleep_calls, 1, __ATOMIC_RELAXED);
    void (*sp)(int, void *) = vf_sched_point;
    if (sp) { sp(VF_PT_USLEEP, NULL); return 0; }
    if (vf_usleep_fast) return 0;
    return __real_usleep(us);
}
