/* h_listtbl.c - list table (qlisttbl) under the monitor of C08 (and C11 in the asan build).
 * Reference model: ordered multimap parameterised by the four options
 * (UNIQUE, CASEINSENSITIVE, INSERTTOP, LOOKUPFORWARD).
 */
#define _GNU_SOURCE
#include <stdlib.h>
#include <string.h>
#include <strings.h>
#include <errno.h>
#include <inttypes.h>
#include <unistd.h>
#include "qlibc.h"
#include "vfc.h"
#include <sys/resource.h>
#include <signal.h>
/* the print helpers (debug()) run on real contents now and then: C11 covers what they read */
static FILE *DEVNULL; static unsigned long DBGCTR;
#define DEBUG_NOW() (((++DBGCTR) % 61) == 0 && (DEVNULL || (DEVNULL = fopen("/dev/null", "w"))))

#include "ref_hash.h"

static rng_t R;
static int P;
static bool abandon;
static long ledger_mark;
static qlisttbl_t *T;
static bool oU, oC, oT, oF;
static int OPT;

typedef struct { char *name; unsigned char *v; size_t vl; } ent_t;
static ent_t *M; static int MN, MCAP;

/* the last two names are replaced at start-up by a pair of distinct names with identical full 32-bit
 * MurmurHash3 values (birthday search with the reference hash): the table matches names by (hash, strcmp) */
static char COLLA[16] = "c1", COLLB[16] = "c2";
/* long names (257, 300 and 4000 bytes; two of them differ only in the case of the last letter, two only in the last letter) */
static char LONG1[258], LONG2[301], LONG3[301], LONG4[301], LONG5[4001];
static const char *NAMES[] = {"a", "A", "b", "B", "ab", "aB", "Ab", "zz", COLLA, COLLB, LONG1, LONG2, LONG3, LONG4, LONG5,
                              "\xc3\xa9t\xc3\xa9-\xff\x80z", "\xc3\xa9T\xc3\xa9-\xff\x80Z"};   /* bytes >= 0x80 (UTF-8, Latin-1), two spellings */
#define NNAMES 17
/* every name exists in four copies that start 0..3 bytes into their block: equal names reach the table through differently aligned pointers */
static char *NAMEV[NNAMES][4];
static void name_variants(void) { for (int i = 0; i < NNAMES; i++) for (int o = 0; o < 4; o++) { size_t l = strlen(NAMES[i]) + 1; char *b = hm_alloc(l + (size_t)o); memcpy(b + o, NAMES[i], l); NAMEV[i][o] = b + o; } }
static void long_names(void) {
    memset(LONG1, 'n', 257); memset(LONG2, 'n', 300); memset(LONG3, 'n', 300); memset(LONG4, 'n', 300); memset(LONG5, 'n', 4000);
    LONG2[299] = 'a'; LONG3[299] = 'A'; LONG4[299] = 'b'; LONG5[3999] = 'q';
}
static int cmp_u64(const void *a, const void *b) { uint64_t x = *(const uint64_t *)a, y = *(const uint64_t *)b; return x < y ? -1 : x > y; }
static void find_collision(void) {
    int N = 300000; uint64_t *h = hm_alloc(sizeof(uint64_t) * (size_t)N); char b[16];
    for (int i = 0; i < N; i++) { int l = snprintf(b, sizeof b, "user%d", i); h[i] = (uint64_t)ref_murmur3_32(b, (size_t)l) << 32 | (uint32_t)i; }
    qsort(h, (size_t)N, sizeof(uint64_t), cmp_u64);
    for (int i = 0; i + 1 < N; i++) if ((h[i] >> 32) == (h[i + 1] >> 32)) { snprintf(COLLA, 16, "user%u", (unsigned)(h[i] & 0xffffffffu)); snprintf(COLLB, 16, "user%u", (unsigned)(h[i + 1] & 0xffffffffu)); vf_count("full_hash_collision_pair_in_name_set", 1); break; }
    hm_free(h);
}

static bool judge(const char *prop, const char *key, const char *fmt, ...) __attribute__((format(printf, 3, 4)));
static bool judge(const char *prop, const char *key, const char *fmt, ...) {
    char msg[600]; va_list ap; va_start(ap, fmt); vsnprintf(msg, sizeof msg, fmt, ap); va_end(ap);
    abandon = true;
    if (!strcmp(prop, VF.prop)) { vf_viol(prop, key, "%s", msg); return true; }
    vf_count("other_property_oracle_mismatch", 1);
    return true;
}
static bool eq(const char *a, const char *b) { return oC ? !strcasecmp(a, b) : !strcmp(a, b); }
static int ncmp(const char *a, const char *b) { return oC ? strcasecmp(a, b) : strcmp(a, b); }

static void m_insert_at(int pos, const char *name, const void *v, size_t vl) {
    if (MN == MCAP) { MCAP = MCAP ? MCAP * 2 : 64; M = vf_xrealloc(M, sizeof(ent_t) * (size_t)MCAP); }
    memmove(&M[pos + 1], &M[pos], sizeof(ent_t) * (size_t)(MN - pos));
    M[pos].name = vf_xdup(name, strlen(name) + 1); M[pos].v = vf_xdup(v, vl); M[pos].vl = vl; MN++;
}
static void m_delete(int pos) { hm_free(M[pos].name); hm_free(M[pos].v); memmove(&M[pos], &M[pos + 1], sizeof(ent_t) * (size_t)(MN - pos - 1)); MN--; }
static int m_remove_all(const char *name) { int n = 0; for (int i = MN - 1; i >= 0; i--) if (eq(M[i].name, name)) { m_delete(i); n++; } return n; }
static void m_clear(void) { while (MN) m_delete(MN - 1); }
static void m_put(const char *name, const void *v, size_t vl, bool top) { if (oU) m_remove_all(name); m_insert_at(top ? 0 : MN, name, v, vl); }
/* i-th entry in lookup order */
static int lk(int i) { return oF ? i : MN - 1 - i; }
static int m_first_match(const char *name) { for (int i = 0; i < MN; i++) if (eq(M[lk(i)].name, name)) return lk(i); return -1; }

/* ---- structure + order check --------------------------------------------- */

/* optional out-parameters are NULL in one call out of four; the variable is preset to what the callee would have stored */
static size_t *optout(size_t *p, size_t expect) { if (rng_chance(&R, 1, 4)) { *p = expect; vf_count("calls_with_null_out_parameter", 1); return NULL; } return p; }
static void order_check(void) {
    { static unsigned long pc; if (T->qmutex && (++pc % 29) == 0 && !vf_lock_probe(T->qmutex)) { judge("C08", "unusable-for-other-threads", "a second thread can not take the lock of the (thread-safe) table: an earlier call returned with it held"); return; } }
    if (DEBUG_NOW()) { T->debug(T, DEVNULL); vf_count("debug_prints", 1); }
    vf_count("order_compares", 1);
    if (T->size(T) != (size_t)MN) { judge("C08", "size", "size()=%zu model=%d", T->size(T), MN); return; }
    if (MN == 0) { if (T->first || T->last) judge("C08", "links", "empty table has first/last set"); return; }
    if (!T->first || !T->last || T->first->prev || T->last->next) { judge("C08", "links", "first/last end links broken"); return; }
    int i = 0; qlisttbl_obj_t *o;
    for (o = T->first; o; o = o->next, i++) {
        if (i >= MN) { judge("C08", "links", "forward chain longer than num"); return; }
        if (o->next ? o->next->prev != o : T->last != o) { judge("C08", "links", "next->prev mismatch at position %d", i); return; }
        if (strcmp(o->name, M[i].name) || o->size != M[i].vl || memcmp(o->data, M[i].v, o->size)) {
            judge("C08", "order", "position %d holds (%s,%s), model (%s,%s)", i, o->name, vf_hex(o->data, o->size), M[i].name, vf_hex(M[i].v, M[i].vl)); return; }
        if (o->hash != ref_murmur3_32(o->name, strlen(o->name))) { judge("C08", "stored-hash", "entry %d (%s) carries hash %08x", i, o->name, o->hash); return; }
    }
    if (i != MN) { judge("C08", "links", "forward chain has %d entries, num=%d", i, MN); return; }
    i = 0; for (o = T->last; o; o = o->prev) if (++i > MN) break;
    if (i != MN) judge("C08", "links", "backward chain has %d entries, num=%d", i, MN);
}

/* ---- values ---------------------------------------------------------------- */
static unsigned char VBUF[2400]; static long valctr;
static size_t gen_value(bool as_string) {
    size_t l = 1 + rng_below(&R, rng_chance(&R, 1, 8) ? 200 : 16);
    if (as_string && rng_chance(&R, 1, 40)) l = (size_t[]){1023, 1024, 1025, 1500, 2048}[rng_below(&R, 5)];     /* the formatted put functions retry with a larger buffer from 1024 bytes on */
    valctr++;
    for (size_t i = 0; i < l; i++) VBUF[i] = as_string ? (unsigned char)(1 + rng_below(&R, 255)) : (unsigned char)rng_below(&R, 256);
    VBUF[0] = (unsigned char)('!' + valctr % 90);
    if (as_string) { VBUF[l] = 0; return l + 1; }
    return l;
}

static void table_new(int opt) {
    OPT = opt; oU = opt & 1; oC = opt & 2; oT = opt & 4; oF = opt & 8;
    ledger_mark = vf_ledger_mark();
    static unsigned long tctr; tctr++;
    T = qlisttbl(((tctr & 1) ? QLISTTBL_THREADSAFE : 0) | (oU ? QLISTTBL_UNIQUE : 0) | (oC ? QLISTTBL_CASEINSENSITIVE : 0) | (oT ? QLISTTBL_INSERTTOP : 0) | (oF ? QLISTTBL_LOOKUPFORWARD : 0));
    if (!T) { fprintf(stderr, "qlisttbl() failed\n"); exit(2); }
    abandon = false; m_clear();
}
/* a second, unrelated list table used in between (every other history), same names, other values, a slow walk: nothing the library remembers across
 * calls (a cached entry, a cursor) may be shared between two tables. The decoy's own results are not judged. */
static qlisttbl_t *DECOY; static qlisttbl_obj_t DECOY_CUR;
static void decoy_new(int opt) { DECOY = qlisttbl(opt & ~QLISTTBL_THREADSAFE); memset(&DECOY_CUR, 0, sizeof DECOY_CUR); if (DECOY) vf_count("histories_with_a_second_table_used_in_between", 1); }
static void decoy_step(void) {
    if (!DECOY) return;
    int e = errno; const char *k = NAMEV[rng_below(&R, NNAMES)][rng_below(&R, 4)]; uint32_t c = rng_below(&R, 5);
    if (c <= 1) { if (DECOY->size(DECOY) < 60) DECOY->putstr(DECOY, k, c ? "decoy-one" : "decoy-two"); memset(&DECOY_CUR, 0, sizeof DECOY_CUR); }
    else if (c == 2) { DECOY->remove(DECOY, k); memset(&DECOY_CUR, 0, sizeof DECOY_CUR); }
    else if (c == 3) { size_t sz; void *d = DECOY->get(DECOY, k, &sz, true); free(d); }
    else if (!DECOY->getnext(DECOY, &DECOY_CUR, NULL, false)) memset(&DECOY_CUR, 0, sizeof DECOY_CUR);
    vf_count("operations_on_the_second_table", 1); errno = e;
}
static void table_free(void) {
    if (DECOY) { DECOY->free(DECOY); DECOY = NULL; }
    T->free(T); T = NULL;
    long live = vf_ledger_live_since(ledger_mark);
    vf_count("containers_released", 1);
    if (live) judge("C11", "leak:qlisttbl", "%ld block(s) still live after free()", live);
    else vf_count("containers_released_leak_free", 1);
    if (vf_foreign_frees) { judge("C11", "bad-free:qlisttbl", "free() of a pointer the library never allocated / already freed"); vf_foreign_frees = 0; }
}

/* ---- operations ------------------------------------------------------------ */
static void op_put(const char *name) {
    int api = (int)rng_below(&R, 5);   /* 0,1 put  2 putstr  3 putstrf  4 putint */
    char *kb = vf_xdup(name, strlen(name) + 1);
    bool r;
    if (api == 4) { int64_t v = rng_chance(&R, 1, 3) ? INT64_MIN : (int64_t)rng_next(&R) >> rng_below(&R, 60);
        vf_log("putint %s %" PRId64, name, v);
        r = T->putint(T, kb, v); char s[32]; size_t l = (size_t)snprintf(s, sizeof s, "%" PRId64, v) + 1; m_put(name, s, l, oT);
        int mi = m_first_match(name);   /* getint reads the first match in lookup direction: only meaningful if that is a string */
        if (r && mi >= 0 && M[mi].v[M[mi].vl - 1] == 0) { int64_t g = T->getint(T, kb); int64_t e = atoll((char *)M[mi].v); vf_count("getint", 1);
                 if (g != e) judge("C08", "getint", "getint(%s)=%" PRId64 " model %" PRId64, name, g, e); }
    } else {
        size_t vl = gen_value(api >= 2);
        unsigned char *vb = vf_xdup(VBUF, vl);
        vf_log("put[%d] %s v=%s", api, name, vf_hex(VBUF, vl));
        if (api == 2) r = T->putstr(T, kb, (char *)vb); else if (api == 3) r = T->putstrf(T, kb, "%s", (char *)vb); else r = T->put(T, kb, vb, vl);
        memset(vb, 0xA5, vl); hm_free(vb);
        m_put(name, VBUF, vl, oT);
    }
    memset(kb, 0xA5, strlen(name)); hm_free(kb);
    vf_count("puts", 1);
    if (!r) judge("C08", "put-failed", "put(%s) returned false errno=%d", name, errno);
}
static void op_get(const char *name) {
    bool newmem = rng_chance(&R, 1, 2); int api = (int)rng_below(&R, 2);
    int mi = m_first_match(name);
    if (api == 1 && mi >= 0 && (M[mi].v[M[mi].vl - 1] != 0 || strlen((char *)M[mi].v) + 1 != M[mi].vl)) api = 0;
    size_t sz = 999; errno = 0; void *d;
    vf_log("get[%d,newmem=%d] %s", api, newmem, name);
    if (api == 0) d = T->get(T, name, optout(&sz, mi >= 0 ? M[mi].vl : sz), newmem); else { d = T->getstr(T, name, newmem); sz = d ? strlen(d) + 1 : 0; }
    int e = errno;
    vf_count(mi >= 0 ? "get_hit" : "get_miss", 1);
    if (mi >= 0) { if (!d) judge("C08", "get-miss", "get(%s) returned NULL", name);
                   else if (sz != M[mi].vl || memcmp(d, M[mi].v, sz)) judge("C08", "get-not-first-in-lookup-order", "get(%s) returned %s, model's first match in lookup direction is %s", name, vf_hex(d, sz), vf_hex(M[mi].v, M[mi].vl)); }
    else { if (d) judge("C08", "get-phantom", "get(%s) returned data for an absent key", name); else if (e != ENOENT) judge("C08", "get-errno", "get miss errno=%d", e); }
    if (d && newmem) free(d);
}
static void op_getmulti(const char *name) {
    bool newmem = rng_chance(&R, 1, 2); size_t n = 777;
    vf_log("getmulti[newmem=%d] %s", newmem, name);
    errno = 0;
    qlisttbl_data_t *objs = T->getmulti(T, name, newmem, &n);
    int exp = 0; for (int i = 0; i < MN; i++) if (eq(M[i].name, name)) exp++;
    vf_count("getmulti", 1);
    if ((size_t)exp != n) { judge("C08", "getmulti-count", "getmulti(%s) found %zu, model %d", name, n, exp); goto out; }
    if (exp == 0) { if (objs) judge("C08", "getmulti-empty", "getmulti of absent key returned an array"); else if (errno != ENOENT) judge("C08", "getmulti-errno", "errno=%d", errno); return; }
    if (!objs) { judge("C08", "getmulti-null", "getmulti returned NULL for %d matches", exp); return; }
    int k = 0;
    for (int i = 0; i < MN; i++) { int p = lk(i); if (!eq(M[p].name, name)) continue;
        if (objs[k].size != M[p].vl || memcmp(objs[k].data, M[p].v, M[p].vl)) { judge("C08", "getmulti-order", "getmulti(%s) element %d differs from the model's lookup order", name, k); goto out; }
        k++; }
    if (objs[k].type != 0) judge("C08", "getmulti-terminator", "array not terminated");
out:
    if (objs) T->freemulti(objs);
}
static void op_remove(const char *name) {
    vf_log("remove %s", name);
    size_t r = T->remove(T, name); int m = m_remove_all(name);
    vf_count(m ? "remove_present" : "remove_absent", 1); if (m > 1) vf_count("remove_multiple", 1);
    if (r != (size_t)m) judge("C08", "remove-count", "remove(%s) returned %zu, model removed %d", name, r, m);
}
/* the key argument is the table's own string: the name pointer of a stored entry, as a walk without the copy flag hands it out
 * (remove(tbl, obj.name); putstr(tbl, obj.name, ...) on a unique table). The entry - and the string - goes away in the middle of the call. */
static void op_alias(bool put) {
    if (!MN) return;
    int k = (int)rng_below(&R, (uint32_t)MN); qlisttbl_obj_t *o = T->first; for (int i = 0; i < k && o; i++) o = o->next;
    if (!o || !o->name) return;
    char *copy = vf_xdup(o->name, strlen(o->name) + 1);
    if (put) { size_t vl = gen_value(true); vf_log("putstr through the stored name pointer of entry %d (%s) v=%s", k, copy, vf_hex(VBUF, vl));
               if (!T->putstr(T, o->name, (char *)VBUF)) judge("C08", "put-failed", "putstr failed"); m_put(copy, VBUF, vl, oT); vf_count("puts_through_a_stored_name_pointer", 1); }
    else { vf_log("remove through the stored name pointer of entry %d (%s)", k, copy);
           size_t r = T->remove(T, o->name); int m = m_remove_all(copy); if (m > 1) vf_count("remove_multiple", 1);
           if (r != (size_t)m) judge("C08", "remove-count", "remove(%s) through the entry's own name pointer returned %zu, model removed %d", copy, r, m);
           vf_count("removes_through_a_stored_name_pointer", 1); }
    hm_free(copy);
}
/* walk (full or name-filtered); optionally removeobj of the k-th visited entry during the walk */
static void op_walk(const char *name, bool newmem, int remove_at) {
    qlisttbl_obj_t obj; memset(&obj, 0, sizeof obj);
    vf_log("walk[name=%s,newmem=%d,remove_at=%d] n=%d", name ? name : "(all)", newmem, remove_at, MN);
    /* expected sequence of model positions, computed up-front */
    int *exp = hm_alloc(sizeof(int) * (size_t)(MN + 1)); int ne = 0;
    for (int i = 0; i < MN; i++) { int p = lk(i); if (!name || eq(M[p].name, name)) exp[ne++] = p; }
    int k = 0; int removed_pos = -1;
    while (1) {
        errno = 0;
        bool r = T->getnext(T, &obj, name, newmem);
        if (!r) { if (errno != ENOENT) judge("C08", "walk-end-errno", "errno=%d", errno); break; }
        if (k >= ne) { judge("C08", "walk-extra", "walk returned more than %d entries", ne); if (newmem) { free(obj.name); free(obj.data); } break; }
        int p = exp[k]; if (removed_pos >= 0 && p > removed_pos) p--;   /* positions shift after the removal */
        bool bad = strcmp(obj.name, M[p].name) || obj.size != M[p].vl || memcmp(obj.data, M[p].v, M[p].vl);
        if (newmem) { free(obj.name); free(obj.data); }
        if (bad) { judge("C08", "walk-order", "walk element %d differs from the model (lookup order)", k); break; }
        if (k == remove_at) {
            const char *cls = MN == 1 ? "removeobj_only" : p == 0 ? "removeobj_first" : p == MN - 1 ? "removeobj_last" : "removeobj_middle";
            if (!T->removeobj(T, &obj)) { judge("C08", "removeobj-failed", "removeobj during walk failed"); break; }
            m_delete(p); removed_pos = p; vf_count(cls, 1);
        }
        k++;
    }
    if (!abandon) { if (k != ne) judge("C08", "walk-short", "walk returned %d of %d entries", k, ne); else { vf_count(name ? "named_walks_audited" : "full_walks_audited", 1); vf_count("walk_elements_compared", k); } }
    hm_free(exp);
}
static void op_sort(void) {
    vf_log("sort");
    T->sort(T);
    /* stable insertion sort of the model */
    for (int i = 1; i < MN; i++) { ent_t e = M[i]; int j = i - 1; while (j >= 0 && ncmp(M[j].name, e.name) > 0) { M[j + 1] = M[j]; j--; } M[j + 1] = e; }
    vf_count("sorts", 1);
}
/* save() onto a device that runs full: the file size limit of the process is lowered to k bytes (SIGXFSZ ignored, write() fails with EFBIG or is
 * cut short), or the target is /dev/full. save() may refuse; if it reports success, loading the file must reproduce every entry. */
static void op_save_fault(void) {
    for (int i = 0; i < MN; i++) if (M[i].v[M[i].vl - 1] != 0 || strlen((char *)M[i].v) + 1 != M[i].vl) return;
    if (!MN) return;
    bool encode = true; char sep = "=:|"[rng_below(&R, 3)];
    if (rng_chance(&R, 1, 5)) { vf_log("save to /dev/full n=%d", MN); vf_count("saves_onto_a_full_device", 1);
        if (T->save(T, "/dev/full", sep, encode)) judge("C08", "save-success-on-full-device", "save() of %d entries to /dev/full reported success", MN); return; }
    size_t est = 120; for (int i = 0; i < MN; i++) est += strlen(M[i].name) + 2 + 3 * M[i].vl;
    size_t k = 1 + rng_below(&R, (uint32_t)est);
    char path[128]; snprintf(path, sizeof path, "listtbl-%d-%d.lim", VF.shard, (int)getpid());
    vf_log("save with the file size limit at %zu bytes n=%d", k, MN);
    struct rlimit old, lim; getrlimit(RLIMIT_FSIZE, &old); lim = old; lim.rlim_cur = k; signal(SIGXFSZ, SIG_IGN);
    setrlimit(RLIMIT_FSIZE, &lim);
    bool ok = T->save(T, path, sep, encode);
    setrlimit(RLIMIT_FSIZE, &old);
    vf_count(ok ? "size_limited_saves_reported_success" : "size_limited_saves_refused", 1);
    if (ok) {
        qlisttbl_t *t2 = qlisttbl(0); if (!t2) exit(2);
        ssize_t n = t2->load(t2, path, sep, encode);
        if (n != MN) judge("C08", "save-truncated-reported-success", "save() under a %zu-byte file size limit reported success, load() of that file delivers %zd of %d entries", k, n, MN);
        else { int i = 0; for (qlisttbl_obj_t *o = t2->first; o && i < MN; o = o->next, i++) if (strcmp(o->name, M[i].name) || o->size != M[i].vl || memcmp(o->data, M[i].v, M[i].vl)) {
                   judge("C08", "save-truncated-reported-success", "save() under a %zu-byte file size limit reported success, entry %d reloads as %s", k, i, vf_hex(o->data, o->size)); break; } }
        t2->free(t2);
    }
    unlink(path);
}
static void op_saveload(void) {
    /* string values only */
    for (int i = 0; i < MN; i++) if (M[i].v[M[i].vl - 1] != 0 || strlen((char *)M[i].v) + 1 != M[i].vl) return;
    bool encode = rng_chance(&R, 1, 2);
    static const char SEPS[] = "=:|;,";
    char sep = SEPS[rng_below(&R, 5)];
    if (!encode) for (int i = 0; i < MN; i++) { const char *s = (char *)M[i].v; size_t l = strlen(s);
        if (strchr(s, '\n') || (l && strchr(" \t\r\n", s[0])) || (l && strchr(" \t\r\n", s[l - 1]))) encode = true; }
    char path[128]; snprintf(path, sizeof path, "listtbl-%d-%d.sav", VF.shard, (int)getpid());
    vf_log("save+load[encode=%d,sep=%c] n=%d", encode, sep, MN);
    if (!T->save(T, path, sep, encode)) { judge("C08", "save-failed", "save failed errno=%d", errno); return; }
    bool into_nonempty = MN <= 400 && rng_chance(&R, 1, 3);   /* loading into the non-empty table doubles it: unchecked, a long history reached 64902 entries and the (quadratic) sort of that table ran into the per-operation CPU budget */
    int before = MN;
    /* snapshot of the model entries to append */
    ent_t *snap = hm_alloc(sizeof(ent_t) * (size_t)(MN + 1));
    for (int i = 0; i < MN; i++) { snap[i].name = vf_xdup(M[i].name, strlen(M[i].name) + 1); snap[i].v = vf_xdup(M[i].v, M[i].vl); snap[i].vl = M[i].vl; }
    if (!into_nonempty) { T->clear(T); m_clear(); }
    ssize_t n = T->load(T, path, sep, encode);
    unlink(path);
    for (int i = 0; i < before; i++) { m_put(snap[i].name, snap[i].v, snap[i].vl, false); hm_free(snap[i].name); hm_free(snap[i].v); }   /* load appends at the bottom */
    hm_free(snap);
    vf_count(into_nonempty ? "save_load_append_roundtrips" : "save_load_roundtrips", 1);
    if (n != before) { judge("C08", "load-count", "load returned %zd, %d entries were saved and loaded", n, before); return; }
}

static void history(long caseno) {
    rng_seed(&R, VF.seed, (uint64_t)caseno);
    int opt = (int)(caseno % 16);
    int nops = 600;
    vf_case_begin(caseno, "random history: UNIQUE=%d CASEINSENSITIVE=%d INSERTTOP=%d LOOKUPFORWARD=%d ops=%d", opt & 1, !!(opt & 2), !!(opt & 4), !!(opt & 8), nops);
    table_new(opt);
    bool strings_only = rng_chance(&R, 1, 2);   /* so that save/load is applicable */
    if ((caseno >> 4) & 1) decoy_new((oU ? QLISTTBL_UNIQUE : 0) | (oC ? QLISTTBL_CASEINSENSITIVE : 0) | (oT ? 0 : QLISTTBL_INSERTTOP) | (oF ? 0 : QLISTTBL_LOOKUPFORWARD));   /* same key semantics, opposite directions */
    for (int op = 0; op < nops && !abandon; op++) {
        if (DECOY && rng_chance(&R, 1, 3)) decoy_step();
        const char *name = NAMEV[rng_below(&R, rng_chance(&R, 1, 3) ? 3 : NNAMES)][rng_below(&R, 4)];
        uint32_t c = rng_below(&R, 100);
        if (c < 34) { if (strings_only) { char *kb = vf_xdup(name, strlen(name) + 1); size_t vl = gen_value(true); vf_log("putstr %s v=%s", name, vf_hex(VBUF, vl));
                                          if (!T->putstr(T, kb, (char *)VBUF)) judge("C08", "put-failed", "putstr failed"); m_put(name, VBUF, vl, oT); hm_free(kb); vf_count("puts", 1); }
                      else op_put(name); }
        else if (c < 46) op_get(name);
        else if (c < 54) op_getmulti(name);
        else if (c < 62) op_remove(name);
        else if (c < 70) op_walk(NULL, rng_chance(&R, 1, 2), -1);
        else if (c < 78) op_walk(name, rng_chance(&R, 1, 2), -1);
        else if (c < 84) { int n = 0; for (int i = 0; i < MN; i++) if (eq(M[i].name, name)) n++; if (n) op_walk(name, false, (int)rng_below(&R, (uint32_t)n)); }
        else if (c < 90) { if (MN) { uint32_t w = rng_below(&R, 3); op_walk(NULL, false, w == 0 ? 0 : w == 1 ? MN - 1 : (int)rng_below(&R, (uint32_t)MN)); } }
        else if (c < 91) op_sort();
        else if (c < 92) op_save_fault();
        else if (c < 94) op_alias(rng_chance(&R, 1, 2));
        else if (c < 98) op_saveload();
        else if (rng_chance(&R, 1, 3)) { vf_log("clear"); T->clear(T); m_clear(); vf_count("clear", 1); }
        else { /* refused calls are effect-free: invalid values for a name that may be present (a unique table must not drop the old entry first) */
            vf_log("invalid put %s", name); errno = 0;
            if (T->putstr(T, name, NULL) || errno != EINVAL) judge("C08", "einval", "putstr(%s, NULL) not refused with EINVAL", name);
            errno = 0; if (!abandon && (T->put(T, name, "x", 0) || errno != EINVAL)) judge("C08", "einval", "put(%s, size 0) not refused with EINVAL", name);
            errno = 0; if (!abandon && (T->put(T, name, NULL, 3) || errno != EINVAL)) judge("C08", "einval", "put(%s, NULL data) not refused with EINVAL", name);
            errno = 0; if (!abandon && (T->put(T, NULL, "x", 1) || errno != EINVAL)) judge("C08", "einval", "put(NULL name) not refused with EINVAL");
            vf_count("invalid_arg_calls", 4); }
        vf_count("evaluations", 1);
        if (!abandon) order_check();
        if (!abandon && (op & 3) == 0) { uint64_t h = VF_H0 + (uint64_t)opt; for (int i = 0; i < MN; i++) h = vf_hash(M[i].name, strlen(M[i].name), h); vf_distinct("distinct", h); }
        if (P == 11 && (op & 15) == 0 && vf_san_poll()) break;
    }
    vf_count(abandon ? "histories_abandoned" : "histories_completed", 1);
    vf_distinct("option_combinations", (uint64_t)opt + 1);
    if (caseno < 16 && !abandon) vf_sample("history #%ld: options U=%d C=%d T=%d F=%d, %d ops over names a/A/b/B/ab/aB/Ab/zz, final entries=%d", caseno, oU, oC, oT, oF, nops, MN);
    table_free();
    if (P == 11) vf_san_poll();
    m_clear();
}

int main(int argc, char **argv) {
    vf_init(argc, argv, "h_listtbl");
    vf_errno_entry = 1; vf_op_budget_ms = VF.thorough ? 120000 : 10000;   /* stale errno on entry of every logged operation; a call that never returns is hang:operation */
    vf_errno_noise_every = 5;   /* every fifth case: successful allocations leave errno = ENOMEM behind (glibc does when brk fails) */
    P = atoi(VF.prop + 1);
    if (P != 8 && P != 11) { fprintf(stderr, "h_listtbl: unsupported property %s\n", VF.prop); return 2; }
    vf_ledger_enable(true);
    long ncases = vf_arg_long("cases", 960);
    find_collision(); long_names(); name_variants();
    for (long c = 0; c < ncases; c++) if (vf_mine(c)) history(c);
    return vf_finish() ? 1 : 0;
}
