#ifndef VFLOCK_H
#define VFLOCK_H
/* lock monitor / scheduling points (wrap_lock.c) */
enum { VF_PT_TRYLOCK = 1, VF_PT_LOCKED, VF_PT_UNLOCKED, VF_PT_USLEEP, VF_PT_ALLOC, VF_PT_OPSTART, VF_PT_OPEND };
int vf_lock_register(void *mutex);        /* address of the pthread_mutex_t (== the qmutex pointer) */
void vf_lock_unregister(void *mutex);
void vf_lock_unregister_all(void);
int vf_lock_depth(void *mutex);           /* calling thread's depth on that mutex */
void vf_lock_depth_reset(void *mutex);
extern void (*volatile vf_sched_point)(int point, void *mutex);
extern volatile int vf_usleep_fast;
extern volatile int vf_spin_abort;
extern volatile long vf_trylock_calls, vf_trylock_busy, vf_unlock_calls, vf_usleep_calls;
#endif
