/* h_list.c - list, queue, stack, grow buffer under the monitor of C09 (and C11 in the asan build).
 * Reference model: array of byte strings with the documented index conventions
 *   insertion: negative i -> n+i+1, valid 0..n ; access: negative i -> n+i, valid 0..n-1
 */
#define _GNU_SOURCE
#include <stdlib.h>
#include <string.h>
#include <errno.h>
#include <inttypes.h>
#include "qlibc.h"
#include "vfc.h"
#include <limits.h>
/* the print helpers (debug()) run on real contents now and then: C11 covers what they read */
static FILE *DEVNULL; static unsigned long DBGCTR;
#define DEBUG_NOW() (((++DBGCTR) % 61) == 0 && (DEVNULL || (DEVNULL = fopen("/dev/null", "w"))))


static rng_t R;
static int P;
static bool abandon;
static long ledger_mark;

typedef struct { unsigned char *d; size_t n; } el_t;
static el_t *M; static int MN, MCAP; static size_t MMAX;   /* model + configured maximum (0 = none) */

static bool judge(const char *prop, const char *key, const char *fmt, ...) __attribute__((format(printf, 3, 4)));
static bool judge(const char *prop, const char *key, const char *fmt, ...) {
    char msg[600]; va_list ap; va_start(ap, fmt); vsnprintf(msg, sizeof msg, fmt, ap); va_end(ap);
    abandon = true;
    if (!strcmp(prop, VF.prop)) { vf_viol(prop, key, "%s", msg); return true; }
    vf_count("other_property_oracle_mismatch", 1);
    return true;
}
static void m_ins(int pos, const void *d, size_t n) {
    if (MN == MCAP) { MCAP = MCAP ? MCAP * 2 : 64; M = vf_xrealloc(M, sizeof(el_t) * (size_t)MCAP); }
    memmove(&M[pos + 1], &M[pos], sizeof(el_t) * (size_t)(MN - pos));
    M[pos].d = vf_xdup(d, n); M[pos].n = n; MN++;
}
static void m_del(int pos) { hm_free(M[pos].d); memmove(&M[pos], &M[pos + 1], sizeof(el_t) * (size_t)(MN - pos - 1)); MN--; }
static void m_clear(void) { while (MN) m_del(MN - 1); }
static size_t m_sum(void) { size_t s = 0; for (int i = 0; i < MN; i++) s += M[i].n; return s; }

static unsigned char VBUF[4400]; static long valctr;
/* lengths at which internal buffers and fast paths change behaviour (a fixed stack buffer, a first allocation step, a slot payload) */
static const unsigned short EDGE_LEN[] = {15, 16, 17, 31, 32, 33, 63, 64, 65, 127, 128, 129, 255, 256, 257, 511, 512, 513, 1022, 1023, 1024, 1025, 1026, 2047, 2048, 2049, 4095, 4096, 4097};
/* kind: 0 arbitrary bytes, 1 C string (with terminator), 2 only NUL bytes, 3 trailing NULs, 4 embedded NULs */
static size_t gen_value(int kind) {
    size_t l = 1 + rng_below(&R, rng_chance(&R, 1, 10) ? 250 : 12);
    if (rng_chance(&R, 1, 16)) { l = EDGE_LEN[rng_below(&R, sizeof EDGE_LEN / sizeof EDGE_LEN[0])]; if (kind == 1) l += rng_below(&R, 2); vf_count("values_of_edge_length", 1); }   /* for strings: the text, or the text plus its terminator, has that length */
    valctr++;
    for (size_t i = 0; i < l; i++) VBUF[i] = (unsigned char)(1 + rng_below(&R, 255));
    VBUF[0] = (unsigned char)('!' + valctr % 90);
    switch (kind) {
    case 1: VBUF[l] = 0; return l + 1;
    case 2: memset(VBUF, 0, l); return l;
    case 3: VBUF[l - 1] = 0; if (l > 2) VBUF[l - 2] = 0; return l;
    case 4: VBUF[l / 2] = 0; return l;
    default: if (rng_chance(&R, 1, 3)) VBUF[rng_below(&R, (uint32_t)l)] = 0; return l;
    }
}

/* full comparison of a qlist with the model through public links and API */

/* optional out-parameters are NULL in one call out of four; the variable is preset to what the callee would have stored */
static size_t *optout(size_t *p, size_t expect) { if (rng_chance(&R, 1, 4)) { *p = expect; vf_count("calls_with_null_out_parameter", 1); return NULL; } return p; }
static void list_check(qlist_t *L) {
    { static unsigned long pc; if (L->qmutex && (++pc % 29) == 0 && !vf_lock_probe(L->qmutex)) { judge("C09", "unusable-for-other-threads", "a second thread can not take the lock of the (thread-safe) list: an earlier call returned with it held"); return; } }
    if (DEBUG_NOW()) { L->debug(L, DEVNULL); vf_count("debug_prints", 1); }
    vf_count("state_compares", 1);
    if (L->size(L) != (size_t)MN) { judge("C09", "size", "size()=%zu model=%d", L->size(L), MN); return; }
    if (L->datasize(L) != m_sum()) { judge("C09", "datasize", "datasize()=%zu model=%zu", L->datasize(L), m_sum()); return; }
    if (MN == 0) { if (L->first || L->last) judge("C09", "links", "empty list has first/last"); return; }
    if (!L->first || !L->last || L->first->prev || L->last->next) { judge("C09", "links", "end links broken"); return; }
    int i = 0;
    for (qlist_obj_t *o = L->first; o; o = o->next, i++) {
        if (i >= MN) { judge("C09", "links", "forward chain longer than num"); return; }
        if (o->next ? o->next->prev != o : L->last != o) { judge("C09", "links", "next->prev mismatch at %d", i); return; }
        if (o->size != M[i].n || memcmp(o->data, M[i].d, o->size)) { judge("C09", "content", "element %d is %s, model %s", i, vf_hex(o->data, o->size), vf_hex(M[i].d, M[i].n)); return; }
    }
    if (i != MN) { judge("C09", "links", "forward chain has %d elements, num=%d", i, MN); return; }
    i = 0; for (qlist_obj_t *o = L->last; o; o = o->prev) if (++i > MN) break;
    if (i != MN) judge("C09", "links", "backward chain has %d elements, num=%d", i, MN);
}

static qlist_t *list_new(void) {
    ledger_mark = vf_ledger_mark();
    static unsigned long lctr; lctr++;
    qlist_t *L = qlist((lctr & 1) ? QLIST_THREADSAFE : 0);
    if (!L) { fprintf(stderr, "qlist() failed\n"); exit(2); }
    abandon = false; m_clear(); MMAX = 0;
    return L;
}
static void released(const char *what) {
    long live = vf_ledger_live_since(ledger_mark);
    vf_count("containers_released", 1);
    if (live) judge("C11", what, "%ld block(s) still live after free()", live);
    else vf_count("containers_released_leak_free", 1);
    if (vf_foreign_frees) { judge("C11", "bad-free", "free() of a pointer the library never allocated / already freed"); vf_foreign_frees = 0; }
}

/* ---- list operations -------------------------------------------------------- */
static void l_add(qlist_t *L, int how, int index) {   /* how: 0 addfirst 1 addlast 2 addat */
    size_t vl = gen_value((int)rng_below(&R, 5));
    unsigned char *vb = vf_xdup(VBUF, vl);
    int ins = how == 0 ? 0 : how == 1 ? MN : (index < 0 ? MN + index + 1 : index);
    bool full = MMAX > 0 && (size_t)MN >= MMAX;
    bool range_ok = ins >= 0 && ins <= MN;
    vf_log("%s(%d) v=%s n=%d max=%zu", how == 0 ? "addfirst" : how == 1 ? "addlast" : "addat", index, vf_hex(VBUF, vl), MN, MMAX);
    errno = 0;
    bool r = how == 0 ? L->addfirst(L, vb, vl) : how == 1 ? L->addlast(L, vb, vl) : L->addat(L, index, vb, vl);
    int e = errno;
    memset(vb, 0xA5, vl); hm_free(vb);
    bool expect = !full && range_ok;
    vf_count(expect ? "add_ok" : full ? "add_refused_full" : "add_refused_range", 1);
    if (r != expect) { judge("C09", "add", "add returned %d, model %d (insert position %d of %d, full=%d)", r, expect, ins, MN, full); return; }
    if (r) m_ins(ins, VBUF, vl);
    else { if (full ? e != ENOBUFS : e != ERANGE) judge("C09", "add-errno", "refused add: errno=%d (full=%d)", e, full); vf_count("refused_calls_verified_effect_free", 1); }
}
static void l_get(qlist_t *L, int how, int index, int act) {   /* act 0 get 1 pop 2 remove ; how 0 first 1 last 2 at */
    int pos = how == 0 ? 0 : how == 1 ? MN - 1 : (index < 0 ? MN + index : index);
    bool ok = pos >= 0 && pos < MN;
    bool newmem = act == 1 ? true : rng_chance(&R, 1, 2);
    size_t sz = 4242; void *d = NULL; bool rb = false;
    static const char *AN[] = {"get", "pop", "remove"}; static const char *HN[] = {"first", "last", "at"};
    vf_log("%s%s(%d) newmem=%d n=%d", AN[act], HN[how], index, newmem, MN);
    errno = 0;
    size_t *szp = optout(&sz, ok ? M[pos].n : sz);
    if (act == 0) d = how == 0 ? L->getfirst(L, szp, newmem) : how == 1 ? L->getlast(L, szp, newmem) : L->getat(L, index, szp, newmem);
    else if (act == 1) d = how == 0 ? L->popfirst(L, szp) : how == 1 ? L->poplast(L, szp) : L->popat(L, index, szp);
    else rb = how == 0 ? L->removefirst(L) : how == 1 ? L->removelast(L) : L->removeat(L, index);
    int e = errno;
    bool got = act == 2 ? rb : d != NULL;
    vf_count(ok ? (act == 0 ? "get_ok" : act == 1 ? "pop_ok" : "remove_ok") : "access_refused_range", 1);
    if (got != ok) { judge("C09", "access", "%s%s(%d) on %d elements: returned %d, model %d", AN[act], HN[how], index, MN, got, ok); if (d && newmem) free(d); return; }
    if (!ok) { if (e != ERANGE) judge("C09", "access-errno", "refused access: errno=%d, expected ERANGE", e); vf_count("refused_calls_verified_effect_free", 1); return; }
    if (act != 2) { if (sz != M[pos].n || memcmp(d, M[pos].d, sz)) judge("C09", "access-wrong-element", "%s%s(%d) returned %s, model element %d is %s", AN[act], HN[how], index, vf_hex(d, sz), pos, vf_hex(M[pos].d, M[pos].n)); }
    if (d && newmem) free(d);
    if (act != 0) m_del(pos);
}
static void l_walk(qlist_t *L, bool newmem) {
    qlist_obj_t o; memset(&o, 0, sizeof o); int i = 0;
    vf_log("getnext-walk newmem=%d n=%d", newmem, MN);
    while (1) {
        errno = 0;
        if (!L->getnext(L, &o, newmem)) { if (errno != ENOENT) judge("C09", "walk-end-errno", "errno=%d", errno); break; }
        if (i >= MN) { judge("C09", "walk-extra", "walk returned more than %d elements", MN); if (newmem) free(o.data); break; }
        bool bad = o.size != M[i].n || memcmp(o.data, M[i].d, o.size);
        if (newmem) free(o.data);
        if (bad) { judge("C09", "walk-order", "walk element %d differs", i); break; }
        i++;
    }
    if (!abandon) { if (i != MN) judge("C09", "walk-short", "walk returned %d of %d", i, MN); else vf_count("walks_audited", 1); }
}
static void check_flatten(void *arr, size_t sz, bool have_size, char *str) {
    if (arr || have_size) {
        size_t want = m_sum();
        if (MN == 0) { if (arr) judge("C09", "toarray-empty", "toarray on empty returned data"); else if (have_size && sz != 0) judge("C09", "toarray-size", "size %zu on empty", sz); }
        else if (!arr) judge("C09", "toarray-null", "toarray returned NULL for %d elements", MN);
        else { if (have_size && sz != want) { judge("C09", "toarray-size", "toarray size %zu model %zu", sz, want); return; }
               size_t off = 0; for (int i = 0; i < MN; i++) { if (memcmp((char *)arr + off, M[i].d, M[i].n)) { judge("C09", "toarray-content", "toarray differs at element %d", i); return; } off += M[i].n; } }
    }
    if (str) {
        size_t off = 0;
        for (int i = 0; i < MN; i++) { size_t n = M[i].n; if (M[i].d[n - 1] == 0) n--; if (memcmp(str + off, M[i].d, n)) { judge("C09", "tostring-content", "tostring differs at element %d", i); return; } off += n; }
        if (str[off] != 0) judge("C09", "tostring-terminator", "tostring not terminated after %zu bytes", off);
    }
}
static void l_flatten(qlist_t *L) {
    vf_log("toarray/tostring n=%d", MN);
    size_t sz = 999; errno = 0;
    void *a = L->toarray(L, &sz);
    if (MN == 0 && !a && errno != ENOENT) judge("C09", "toarray-errno", "errno=%d", errno);
    check_flatten(a, sz, true, NULL); free(a);
    if (abandon) return;
    char *s = L->tostring(L);
    if (MN == 0) { if (s) judge("C09", "tostring-empty", "tostring on empty returned a string"); }
    else if (!s) judge("C09", "tostring-null", "tostring returned NULL");
    else check_flatten(NULL, 0, false, s);
    free(s);
    vf_count("flattenings_audited", 1);
}

/* ---- exhaustive index sweep -------------------------------------------------- */
static void sweep(long caseno) {
    rng_seed(&R, VF.seed, (uint64_t)caseno);
    vf_case_begin(caseno, "exhaustive index sweep n=0..12, index in [-n-2,n+2], ops addat/getat/popat/removeat, limits none/n-1/n/n+1");
    long cells = 0;
    for (int n = 0; n <= 12; n++) for (int idx = -n - 2; idx <= n + 2; idx++) for (int op = 0; op < 4; op++) for (int lim = 0; lim < 4; lim++) {
        if (op != 0 && lim > 1) continue;               /* the limit only matters for insertion */
        if (lim && n + lim - 2 <= 0) continue;          /* a maximum of 0 means "no limit" */
        qlist_t *L = list_new();
        for (int i = 0; i < n; i++) l_add(L, 1, 0);
        vf_case_begin(caseno, "sweep n=%d index=%d op=%s limit=%s", n, idx, (const char *[]){"addat", "getat", "popat", "removeat"}[op], (const char *[]){"none", "n-1", "n", "n+1"}[lim]);
        if (lim) { size_t mx = (size_t)(n + lim - 2); MMAX = mx; L->setsize(L, mx); vf_log("setsize %zu", mx); }
        if (op == 0) l_add(L, 2, idx); else l_get(L, 2, idx, op - 1);
        if (!abandon) list_check(L);
        vf_count("evaluations", 1); cells++;
        vf_distinct("distinct", (uint64_t)((n * 64 + (idx + 20)) * 16 + op * 4 + lim) + 1);
        L->free(L); released("leak:qlist");
        if (P == 11) vf_san_poll();
    }
    vf_count("sweep_cells", cells);
    vf_sample("index sweep: %ld (n, index, op, limit) cells, e.g. n=3 index=-5 op=addat limit=none -> refused ERANGE, list unchanged", cells);
    m_clear();
}

/* ---- random histories --------------------------------------------------------- */
static uint64_t seq_hash(uint64_t salt) { uint64_t h = VF_H0 + salt; for (int i = 0; i < MN && i < 24; i++) h = vf_hash(M[i].d, M[i].n < 4 ? M[i].n : 4, h); return h ^ (uint64_t)MN; }

static void history_list(long caseno) {
    rng_seed(&R, VF.seed, (uint64_t)caseno);
    int nops = VF.thorough ? 3000 : 1000;
    vf_case_begin(caseno, "random list history ops=%d", nops);
    qlist_t *L = list_new();
    for (int op = 0; op < nops && !abandon; op++) {
        uint32_t c = rng_below(&R, 100);
        int idx = (int)rng_below(&R, (uint32_t)(2 * MN + 5)) - MN - 2;
        if (rng_chance(&R, 1, 25)) { static const int X[] = {INT_MIN, INT_MIN + 1, INT_MAX, INT_MAX - 1, -1000000007, 1 << 30, -(1 << 30), 65536, -65536}; idx = X[rng_below(&R, 9)]; vf_count("extreme_indexes", 1); }   /* refused like any other out-of-range index */
        if (c < 12) l_add(L, 0, 0);
        else if (c < 26) l_add(L, 1, 0);
        else if (c < 40) l_add(L, 2, idx);
        else if (c < 52) l_get(L, (int)rng_below(&R, 3), idx, 0);
        else if (c < 62) l_get(L, (int)rng_below(&R, 3), idx, 1);
        else if (c < 72) l_get(L, (int)rng_below(&R, 3), idx, 2);
        else if (c < 78) l_walk(L, rng_chance(&R, 1, 2));
        else if (c < 84) l_flatten(L);
        else if (c < 89) { vf_log("reverse"); L->reverse(L); for (int i = 0; i < MN / 2; i++) { el_t t = M[i]; M[i] = M[MN - 1 - i]; M[MN - 1 - i] = t; } vf_count("reversals", 1); }
        else if (c < 96) { size_t mx = rng_chance(&R, 1, 3) ? 0 : (size_t)rng_below(&R, (uint32_t)MN + 4); vf_log("setsize %zu (n=%d)", mx, MN);
                           size_t old = L->setsize(L, mx); if (old != MMAX) judge("C09", "setsize", "setsize returned %zu, previous maximum was %zu", old, MMAX); MMAX = mx; vf_count("setsize", 1); }
        else if (c < 97) { vf_log("clear"); L->clear(L); m_clear(); vf_count("clear", 1); }
        else { vf_log("invalid"); errno = 0; if (L->addlast(L, NULL, 1) || errno != EINVAL) judge("C09", "einval", "addlast(NULL) accepted"); errno = 0; if (L->addlast(L, "x", 0) || errno != EINVAL) judge("C09", "einval", "addlast(size 0) accepted"); vf_count("invalid_arg_calls", 2); }
        vf_count("evaluations", 1);
        if (!abandon) list_check(L);
        if ((op & 3) == 0) vf_distinct("distinct", seq_hash(1));
        if (P == 11 && (op & 15) == 0 && vf_san_poll()) break;
    }
    vf_count(abandon ? "histories_abandoned" : "histories_completed", 1);
    if (caseno < 3 && !abandon) vf_sample("list history #%ld: %d ops, final length %d, max=%zu", caseno, nops, MN, MMAX);
    L->free(L); released("leak:qlist");
    if (P == 11) vf_san_poll();
    m_clear();
}

/* queue (FIFO: push at the back, pop/get at the front) and stack (LIFO: push at the front) */
static void history_qs(long caseno, bool is_stack) {
    rng_seed(&R, VF.seed, (uint64_t)caseno);
    int nops = VF.thorough ? 3000 : 1000;
    vf_case_begin(caseno, "random %s history ops=%d", is_stack ? "stack" : "queue", nops);
    ledger_mark = vf_ledger_mark();
    static unsigned long qctr; qctr++; qqueue_t *Q = is_stack ? NULL : qqueue((qctr & 1) ? QQUEUE_THREADSAFE : 0); qstack_t *S = is_stack ? qstack((qctr & 1) ? QSTACK_THREADSAFE : 0) : NULL;
    if (!Q && !S) exit(2);
    abandon = false; m_clear(); MMAX = 0;
    qlist_t *L = is_stack ? S->list : Q->list;
#define QS(call_q, call_s) (is_stack ? (call_s) : (call_q))
    for (int op = 0; op < nops && !abandon; op++) {
        uint32_t c = rng_below(&R, 100);
        bool full = MMAX > 0 && (size_t)MN >= MMAX;
        int inspos = is_stack ? 0 : MN;
        if (c < 40) {   /* push / pushstr / pushint */
            int api = (int)rng_below(&R, 3); bool r; size_t vl;
            if (api == 2) { int64_t v = (int64_t)rng_next(&R); vf_log("pushint %" PRId64, v); errno = 0; r = QS(Q->pushint(Q, v), S->pushint(S, v)); memcpy(VBUF, &v, 8); vl = 8; }
            else { vl = gen_value(api == 1 ? 1 : (int)rng_below(&R, 5)); unsigned char *vb = vf_xdup(VBUF, vl); vf_log("push%s v=%s", api ? "str" : "", vf_hex(VBUF, vl)); errno = 0;
                   r = api == 1 ? QS(Q->pushstr(Q, (char *)vb), S->pushstr(S, (char *)vb)) : QS(Q->push(Q, vb, vl), S->push(S, vb, vl)); memset(vb, 0xA5, vl); hm_free(vb); }
            int e = errno;
            vf_count(full ? "push_refused_full" : "push_ok", 1);
            if (r == full) judge("C09", "push", "push returned %d with %d elements, max %zu", r, MN, MMAX);
            else if (r) m_ins(inspos, VBUF, vl); else if (e != ENOBUFS) judge("C09", "push-errno", "refused push errno=%d", e);
        } else if (c < 70) {   /* pop variants at the front */
            bool is_str = MN && M[0].d[M[0].n - 1] == 0 && strlen((char *)M[0].d) + 1 == M[0].n; bool is_int = MN && M[0].n == 8;
            int api = (int)rng_below(&R, 3); if (api == 1 && !is_str) api = 0; if (api == 2 && !is_int) api = 0;
            if (MN == 0) api = (int)rng_below(&R, 2) ? 0 : 1;
            vf_log("pop[%d] n=%d", api, MN);
            if (api == 2) { int64_t v = QS(Q->popint(Q), S->popint(S)); int64_t e; memcpy(&e, M[0].d, 8); if (v != e) judge("C09", is_stack ? "lifo" : "fifo", "popint returned %" PRId64 " expected %" PRId64, v, e); m_del(0); vf_count("pop_ok", 1); }
            else { size_t sz = 0; void *d = api == 1 ? (void *)QS(Q->popstr(Q), S->popstr(S)) : QS(Q->pop(Q, &sz), S->pop(S, &sz));
                   if (api == 1 && d) sz = strlen(d) + 1;
                   if (MN == 0) { if (d) judge("C09", "pop-empty", "pop on empty returned data"); vf_count("pop_on_empty", 1); }
                   else if (!d) judge("C09", "pop-null", "pop returned NULL with %d elements", MN);
                   else { if (sz != M[0].n || memcmp(d, M[0].d, sz)) judge("C09", is_stack ? "lifo" : "fifo", "pop returned %s, expected %s", vf_hex(d, sz), vf_hex(M[0].d, M[0].n)); m_del(0); vf_count("pop_ok", 1); }
                   free(d); }
        } else if (c < 80) {   /* get at the front (no removal) */
            bool is_str = MN && M[0].d[M[0].n - 1] == 0 && strlen((char *)M[0].d) + 1 == M[0].n; bool is_int = MN && M[0].n == 8;
            int api = (int)rng_below(&R, 3); if (api == 1 && !is_str) api = 0; if (api == 2 && !is_int) api = 0; if (MN == 0 && api == 2) api = 0;
            vf_log("get[%d] n=%d", api, MN);
            if (MN && !is_str && rng_chance(&R, 1, 3)) {   /* getstr of an element that is not a C string: whatever text comes back, it is a read - the stored element must not change */
                char *t = QS(Q->getstr(Q), S->getstr(S)); if (!t) judge("C09", "getstr-null", "getstr returned NULL with %d elements", MN); free(t);
                size_t z = 0; void *g = QS(Q->get(Q, &z, false), S->get(S, &z, false));
                if (!g || z != M[0].n || memcmp(g, M[0].d, z)) judge("C09", "read-modified-element", "after getstr() the front element is %s, it was %s", vf_hex(g, g ? z : 0), vf_hex(M[0].d, M[0].n));
                vf_count("getstr_on_raw_element", 1); }
            if (api == 2) { int64_t v = QS(Q->getint(Q), S->getint(S)); int64_t e; memcpy(&e, M[0].d, 8); if (v != e) judge("C09", "get-front", "getint returned %" PRId64 " expected %" PRId64, v, e); }
            else { bool newmem = api == 1 ? true : rng_chance(&R, 1, 2); size_t sz = 0;
                   void *d = api == 1 ? (void *)QS(Q->getstr(Q), S->getstr(S)) : QS(Q->get(Q, &sz, newmem), S->get(S, &sz, newmem));
                   if (api == 1 && d) sz = strlen(d) + 1;
                   if (MN == 0) { if (d) judge("C09", "get-empty", "get on empty returned data"); }
                   else if (!d || sz != M[0].n || memcmp(d, M[0].d, sz)) judge("C09", "get-front", "get returned %s, expected %s", vf_hex(d, d ? sz : 0), vf_hex(M[0].d, M[0].n));
                   if (d && newmem) free(d); }
            vf_count("get_front", 1);
        } else if (c < 90) {   /* getat / popat with any index */
            int idx = (int)rng_below(&R, (uint32_t)(2 * MN + 5)) - MN - 2; if (rng_chance(&R, 1, 25)) { idx = (int[]){INT_MIN, INT_MIN + 1, INT_MAX, -1000000007, 1 << 30}[rng_below(&R, 5)]; vf_count("extreme_indexes", 1); }
            long pos = idx < 0 ? (long)MN + idx : idx; bool ok = pos >= 0 && pos < MN;
            bool pop = rng_chance(&R, 1, 2); bool newmem = pop ? true : rng_chance(&R, 1, 2); size_t sz = 0;
            vf_log("%s(%d) n=%d", pop ? "popat" : "getat", idx, MN);
            errno = 0;
            void *d = pop ? QS(Q->popat(Q, idx, &sz), S->popat(S, idx, &sz)) : QS(Q->getat(Q, idx, &sz, newmem), S->getat(S, idx, &sz, newmem));
            if ((d != NULL) != ok) judge("C09", "access", "getat/popat(%d) on %d elements returned %p", idx, MN, d);
            else if (ok && (sz != M[pos].n || memcmp(d, M[pos].d, sz))) judge("C09", "access-wrong-element", "getat/popat(%d) returned the wrong element", idx);
            else if (!ok && errno != ERANGE) judge("C09", "access-errno", "errno=%d", errno);
            if (d && newmem) free(d);
            if (ok && pop && !abandon) m_del(pos);
            vf_count(ok ? "at_ok" : "access_refused_range", 1); if (!ok) vf_count("refused_calls_verified_effect_free", 1);
        } else if (c < 97) { size_t mx = rng_chance(&R, 1, 3) ? 0 : (size_t)rng_below(&R, (uint32_t)MN + 4); vf_log("setsize %zu", mx); size_t old = QS(Q->setsize(Q, mx), S->setsize(S, mx)); if (old != MMAX) judge("C09", "setsize", "setsize returned %zu expected %zu", old, MMAX); MMAX = mx; vf_count("setsize", 1); }
        else if (rng_chance(&R, 1, 3)) { vf_log("clear"); if (is_stack) S->clear(S); else Q->clear(Q); m_clear(); vf_count("clear", 1); }
        vf_count("evaluations", 1);
        if (!abandon) { if (QS(Q->size(Q), S->size(S)) != (size_t)MN) judge("C09", "size", "size mismatch"); else list_check(L); }
        if ((op & 3) == 0) vf_distinct("distinct", seq_hash(is_stack ? 3 : 2));
        if (P == 11 && (op & 15) == 0 && vf_san_poll()) break;
    }
    vf_count(abandon ? "histories_abandoned" : "histories_completed", 1);
    if (caseno % 4 < 3 && caseno < 12 && !abandon) vf_sample("%s history #%ld: %d ops, final length %d", is_stack ? "stack" : "queue", caseno, nops, MN);
    if (is_stack) S->free(S); else Q->free(Q);
    released(is_stack ? "leak:qstack" : "leak:qqueue");
    if (P == 11) vf_san_poll();
    m_clear();
}

static void history_grow(long caseno) {
    rng_seed(&R, VF.seed, (uint64_t)caseno);
    int nops = VF.thorough ? 1500 : 500;
    vf_case_begin(caseno, "random grow-buffer history ops=%d", nops);
    ledger_mark = vf_ledger_mark();
    static unsigned long gctr; gctr++; qgrow_t *G = qgrow((gctr & 1) ? QGROW_THREADSAFE : 0); if (!G) exit(2);
    abandon = false; m_clear(); MMAX = 0;
    for (int op = 0; op < nops && !abandon; op++) {
        uint32_t c = rng_below(&R, 100);
        if (c < 70) { int api = (int)rng_below(&R, 3); bool r; size_t vl;
            if (api == 0) { vl = gen_value((int)rng_below(&R, 5)); unsigned char *vb = vf_xdup(VBUF, vl); vf_log("add v=%s", vf_hex(VBUF, vl)); r = G->add(G, vb, vl); hm_free(vb); }
            else { vl = gen_value(1); unsigned char *vb = vf_xdup(VBUF, vl); vf_log("addstr%s v=%s", api == 2 ? "f" : "", vf_hex(VBUF, vl)); r = api == 1 ? G->addstr(G, (char *)vb) : G->addstrf(G, "%s", (char *)vb); hm_free(vb); vl--; }
            if (!r) judge("C09", "grow-add", "add failed errno=%d", errno); else m_ins(MN, VBUF, vl); vf_count("grow_adds", 1); }
        else if (c < 95) { vf_log("toarray/tostring n=%d", MN); size_t sz = 999; void *a = G->toarray(G, &sz); check_flatten(a, sz, true, NULL); free(a);
            if (!abandon) { char *s = G->tostring(G); if (MN && !s) judge("C09", "tostring-null", "NULL"); else if (s) check_flatten(NULL, 0, false, s); free(s); } vf_count("flattenings_audited", 1); }
        else if (rng_chance(&R, 1, 2)) { vf_log("clear"); G->clear(G); m_clear(); }
        vf_count("evaluations", 1);
        if (!abandon) { if (G->size(G) != (size_t)MN || G->datasize(G) != m_sum()) judge("C09", "size", "grow size/datasize mismatch"); else list_check(G->list); }
        if ((op & 3) == 0) vf_distinct("distinct", seq_hash(4));
        if (P == 11 && (op & 15) == 0 && vf_san_poll()) break;
    }
    vf_count(abandon ? "histories_abandoned" : "histories_completed", 1);
    G->free(G); released("leak:qgrow");
    if (P == 11) vf_san_poll();
    m_clear();
}

int main(int argc, char **argv) {
    vf_init(argc, argv, "h_list");
    vf_errno_entry = 1; vf_op_budget_ms = VF.thorough ? 120000 : 10000;   /* stale errno on entry of every logged operation; a call that never returns is hang:operation */
    vf_errno_noise_every = 5;   /* every fifth case: successful allocations leave errno = ENOMEM behind (glibc does when brk fails) */
    P = atoi(VF.prop + 1);
    if (P != 9 && P != 11) { fprintf(stderr, "h_list: unsupported property %s\n", VF.prop); return 2; }
    vf_ledger_enable(true);
    long ncases = vf_arg_long("cases", 400);
    if (vf_mine(900000)) sweep(900000);
    for (long c = 0; c < ncases; c++) if (vf_mine(c)) {
        switch (c % 4) { case 0: history_list(c); break; case 1: history_qs(c, false); break; case 2: history_qs(c, true); break; default: if (c % 8 == 3) history_grow(c); else history_list(c); }
    }
    return vf_finish() ? 1 : 0;
}
