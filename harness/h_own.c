/* h_own.c - ownership monitor for C12: containers own private copies of what is put,
 * and every copy handed out is an independent allocation.
 *
 *  - every key/value passed to a put-like call lives in a fresh exactly-sized heap block
 *    that is overwritten with 0xA5 and freed as soon as the call returns;
 *  - every copying accessor is called with the copy flag; the result is compared byte for
 *    byte with the model, must not alias the internal buffer, and is entered into a
 *    retained pool that is re-verified after every later mutation and after the container
 *    has been released, and then freed (a double free / foreign free is caught by ASan and
 *    by the allocation ledger).
 */
#define _GNU_SOURCE
#include <stdlib.h>
#include <string.h>
#include <errno.h>
#include "qlibc.h"
#include "vfc.h"

static rng_t R;
static bool abandon;

static bool bad(const char *key, const char *fmt, ...) __attribute__((format(printf, 2, 3)));
static bool bad(const char *key, const char *fmt, ...) {
    char msg[600]; va_list ap; va_start(ap, fmt); vsnprintf(msg, sizeof msg, fmt, ap); va_end(ap);
    abandon = true; vf_viol("C12", key, "%s", msg); return true;
}

/* ---- caller buffers: exact size, scribbled and freed after the call ---------------- */
typedef struct { unsigned char *p; size_t n; } cb_t;
static cb_t cb(const void *src, size_t n) { cb_t c; c.p = vf_xdup(src, n); c.n = n; return c; }
static void cb_kill(cb_t *c) { memset(c->p, 0xA5, c->n); hm_free(c->p); c->p = NULL; vf_count("caller_buffers_scribbled_and_freed", 1); }

/* ---- retained pool ------------------------------------------------------------------- */
typedef struct { void *ptr; size_t n; unsigned char *expect; const char *acc; } ret_t;
#define POOLMAX 96
static ret_t POOL[POOLMAX]; static int NPOOL;
static void pool_verify(const char *when) {
    for (int i = 0; i < NPOOL; i++)
        if (memcmp(POOL[i].ptr, POOL[i].expect, POOL[i].n)) { bad("retained-copy-changed", "copy returned by %s changed %s", POOL[i].acc, when); return; }
    vf_count("retained_copies_reverified", NPOOL);
}
static void pool_release(int i) {
    if (vf_ledger_has(POOL[i].ptr) == false) { bad("returned-copy-not-an-allocation", "pointer returned by %s is not a live library allocation", POOL[i].acc); }
    else free(POOL[i].ptr);                      /* wrapped free: ledger + ASan */
    hm_free(POOL[i].expect);
    POOL[i] = POOL[--NPOOL];
}
/* enter a returned copy: compare with the expected bytes, check it is its own allocation */
static void retain(const char *acc, void *ptr, size_t n, const void *expect, size_t en, const void *internal) {
    char cname[96]; snprintf(cname, sizeof cname, "copies:%s", acc);
    vf_count(cname, 1); vf_count("copies_retained", 1);
    vf_distinct("accessors_covered", vf_hash(acc, strlen(acc), VF_H0));
    vf_distinct("distinct", vf_hash(expect, en, vf_hash(acc, strlen(acc), VF_H0)));
    if (!ptr) { bad("copy-null", "%s returned NULL for a stored element", acc); return; }
    if (n != en || memcmp(ptr, expect, en)) { bad("copy-wrong-bytes", "%s returned %s (size %zu), stored value is %s (size %zu)", acc, vf_hex(ptr, n), n, vf_hex(expect, en), en); free(ptr); return; }
    if (internal && ptr == internal) { bad("copy-aliases-internal", "%s with the copy flag returned the internal pointer", acc); return; }
    if (!vf_ledger_has(ptr)) { bad("copy-not-own-allocation", "%s returned a pointer that is not the start of a library allocation", acc); return; }
    if (NPOOL == POOLMAX) pool_release((int)rng_below(&R, POOLMAX));
    POOL[NPOOL].ptr = ptr; POOL[NPOOL].n = n; POOL[NPOOL].expect = vf_xdup(expect, en); POOL[NPOOL].acc = acc; NPOOL++;
}
static void pool_drain(const char *when) { pool_verify(when); while (NPOOL && !abandon) pool_release(NPOOL - 1); while (NPOOL) { hm_free(POOL[NPOOL - 1].expect); NPOOL--; } }

/* ---- allocation failure inside a copying read: the answer may be "no copy" (NULL), never the container's own memory ---- */
static bool FARM; static long FHITS;
#define FB() do { FARM = rng_chance(&R, 1, 5); if (FARM) { vf_oom_k = 1 + (long)rng_below(&R, 2); vf_oom_all = rng_chance(&R, 1, 2); oom_begin(); } } while (0)
#define FE() do { FHITS = FARM ? oom_end() : 0; FARM = false; if (FHITS) vf_count("copying_reads_with_a_failed_allocation", 1); } while (0)
static bool refused(const void *d) { if (FHITS && !d) { vf_count("copying_reads_refused_under_allocation_failure", 1); return true; } return false; }

/* ---- values -------------------------------------------------------------------------- */
static unsigned char VB[4400]; static long vctr;
static size_t gval(int kind) {   /* 0 bytes, 1 C string, 2 all zero */
    size_t l = 1 + rng_below(&R, rng_chance(&R, 1, 8) ? 200 : 14);
    if (kind == 1 && rng_chance(&R, 1, 16)) l = (size_t[]){1023, 1024, 1025, 2048, 4096}[rng_below(&R, 5)];   /* the buffer steps of the formatted put functions */
    vctr++;
    for (size_t i = 0; i < l; i++) VB[i] = kind == 2 ? 0 : kind == 1 ? (unsigned char)(1 + rng_below(&R, 255)) : (unsigned char)rng_below(&R, 256);
    if (kind != 2) VB[0] = (unsigned char)('!' + vctr % 90);
    if (kind == 1) { VB[l] = 0; return l + 1; }
    if (kind == 0 && rng_chance(&R, 1, 3)) VB[l - 1] = 0;
    return l;
}

/* a replacement value of the SAME size as the stored one, identical to it up to and including its first NUL byte and different behind it
 * (a record whose leading C string stays the same, a little-endian counter, a block that merely starts with 0x00): "the value did not
 * change" shortcuts that compare as strings, or by size only, keep the old bytes */
static size_t gval_near(int kind, const unsigned char *old, size_t oldlen) {
    if (old && oldlen >= 2 && rng_chance(&R, 1, 4)) {
        size_t z = 0; while (z < oldlen && old[z]) z++;
        if (z + 1 < oldlen) {
            memcpy(VB, old, oldlen); vctr++;
            size_t at = z + 1 + rng_below(&R, (uint32_t)(oldlen - z - 1));
            VB[at] = (unsigned char)(old[at] + 1 + rng_below(&R, 255));                       /* at least one byte behind the NUL differs */
            for (size_t i = z + 1; i < oldlen; i++) if (i != at && rng_chance(&R, 1, 2)) VB[i] = (unsigned char)rng_below(&R, 256);
            vf_count("replacements_equal_up_to_the_first_nul", 1);
            return oldlen;
        }
    }
    return gval(kind);
}

/* ---- map model (keys by id) ----------------------------------------------------------- */
#define NK 12
static char KEYS[NK][40];       /* different lengths: a copy made with somebody else's length shows */
static unsigned char *MV[NK]; static size_t MVL[NK]; static bool MP[NK];
static void mm_reset(void) { for (int i = 0; i < NK; i++) { if (MP[i]) hm_free(MV[i]); MP[i] = false; MV[i] = NULL; snprintf(KEYS[i], sizeof KEYS[i], "key%02d%.*s", i * 7 % 31, (i % 4) * 7, "-a-longer-key-name-tail-xyz"); } }
static void mm_put(int id, const void *v, size_t n) { if (MP[id]) hm_free(MV[id]); MV[id] = vf_xdup(v, n); MVL[id] = n; MP[id] = true; }
static void mm_del(int id) { if (MP[id]) { hm_free(MV[id]); MV[id] = NULL; MP[id] = false; } }
static int mm_id(const void *name, size_t n) { for (int i = 0; i < NK; i++) if (strlen(KEYS[i]) + 1 == n && !memcmp(KEYS[i], name, n)) return i; return -1; }
static int mm_count(void) { int c = 0; for (int i = 0; i < NK; i++) c += MP[i]; return c; }
static int mm_min(void) { int b = -1; for (int i = 0; i < NK; i++) if (MP[i] && (b < 0 || strcmp(KEYS[i], KEYS[b]) < 0)) b = i; return b; }
static int mm_max(void) { int b = -1; for (int i = 0; i < NK; i++) if (MP[i] && (b < 0 || strcmp(KEYS[i], KEYS[b]) > 0)) b = i; return b; }

static long mark;
static void released(const char *what) {
    long live = vf_ledger_live_since(mark) - NPOOL;   /* copies we still hold are ours */
    pool_drain("after the container was released");
    if (vf_foreign_frees) { bad("double-free", "%s: free() of a block that was not live (double free of a returned copy or of caller data)", what); vf_foreign_frees = 0; }
    (void)live;
    vf_count("containers_released", 1);
}

/* ======================================================================== tree table */
static void run_tree(long caseno) {
    vf_case_begin(caseno, "qtreetbl ownership history");
    mm_reset(); mark = vf_ledger_mark();
    qtreetbl_t *T = qtreetbl(0); if (!T) exit(2);
    int nops = VF.thorough ? 2000 : 800;
    for (int op = 0; op < nops && !abandon; op++) {
        int id = (int)rng_below(&R, NK); uint32_t c = rng_below(&R, 100); bool mut = false;
        size_t kl = strlen(KEYS[id]) + 1;
        if (c < 35) { int kind = (int)rng_below(&R, 3); size_t vl0 = vctr, vl = gval_near(kind, MP[id] ? MV[id] : NULL, MP[id] ? MVL[id] : 0); if (vl && memchr(VB, 0, vl - 1)) kind = 0; (void)vl0; cb_t k = cb(KEYS[id], kl), v = cb(VB, vl);
            vf_log("put %s v=%s", KEYS[id], vf_hex(VB, vl));
            bool r = kind == 1 && rng_chance(&R, 1, 2) ? (rng_chance(&R, 1, 2) ? T->putstrf(T, (char *)k.p, "%s", (char *)v.p) : T->putstr(T, (char *)k.p, (char *)v.p)) : T->putobj(T, k.p, k.n, v.p, v.n);
            cb_kill(&k); cb_kill(&v); if (!r) { bad("put-failed", "put failed"); break; } mm_put(id, VB, vl); mut = true; }
        else if (c < 50) { vf_log("remove %s", KEYS[id]); cb_t k = cb(KEYS[id], kl); T->removeobj(T, k.p, k.n); cb_kill(&k); mm_del(id); mut = true; }
        else if (c < 65) { vf_log("get(newmem) %s", KEYS[id]); if (MP[id]) { size_t sz = 0; void *in = T->getobj(T, KEYS[id], kl, NULL, false);
            int api = (int)rng_below(&R, 3);
            if (api == 2 && (MV[id][MVL[id] - 1] != 0 || strlen((char *)MV[id]) + 1 != MVL[id])) api = 0;
            FB(); void *d = api == 0 ? T->getobj(T, KEYS[id], kl, &sz, true) : api == 1 ? T->get(T, KEYS[id], &sz, true) : (void *)T->getstr(T, KEYS[id], true); FE();
            if (api == 2 && d) sz = strlen(d) + 1;
            if (!refused(d)) retain(api == 0 ? "qtreetbl.getobj" : api == 1 ? "qtreetbl.get" : "qtreetbl.getstr", d, sz, MV[id], MVL[id], in); } }
        else if (c < 75) { vf_log("walk(newmem)"); qtreetbl_obj_t o; memset(&o, 0, sizeof o); int n = 0;
            while (!abandon && T->getnext(T, &o, true)) { int k = mm_id(o.name, o.namesize);
                if (k < 0 || !MP[k]) { bad("walk-foreign", "walk returned a key that is not stored"); break; }
                void *in = T->getobj(T, KEYS[k], strlen(KEYS[k]) + 1, NULL, false);
                retain("qtreetbl.getnext(name)", o.name, o.namesize, KEYS[k], strlen(KEYS[k]) + 1, NULL);
                if (!abandon) retain("qtreetbl.getnext(data)", o.data, o.datasize, MV[k], MVL[k], in);
                if (++n > NK) break; } }
        else if (c < 83) { vf_log("find_min/max"); int mn = mm_min(), mx = mm_max(); if (mn >= 0) { size_t ns = 0; FB(); void *a = T->find_min(T, &ns); FE(); if (!refused(a)) retain("qtreetbl.find_min", a, ns, KEYS[mn], strlen(KEYS[mn]) + 1, NULL);
            if (!abandon) { FB(); void *b = T->find_max(T, &ns); FE(); if (!refused(b)) retain("qtreetbl.find_max", b, ns, KEYS[mx], strlen(KEYS[mx]) + 1, NULL); } } }
        else if (c < 93) { vf_log("find_nearest(newmem) %s", KEYS[id]); if (mm_count()) { FB(); qtreetbl_obj_t o = T->find_nearest(T, KEYS[id], kl, true); FE();
            int k = o.name ? mm_id(o.name, o.namesize) : -1;
            if (FHITS && !o.name && !o.data) vf_count("copying_reads_refused_under_allocation_failure", 1);
            else if (k < 0 || !MP[k]) bad("nearest-foreign", "find_nearest returned a key that is not stored");
            else { retain("qtreetbl.find_nearest(name)", o.name, o.namesize, KEYS[k], strlen(KEYS[k]) + 1, NULL); if (!abandon) retain("qtreetbl.find_nearest(data)", o.data, o.datasize, MV[k], MVL[k], NULL); } } }
        else if (c < 95) { vf_log("clear"); T->clear(T); for (int i = 0; i < NK; i++) mm_del(i); mut = true; }
        vf_count("evaluations", 1);
        if (mut && !abandon) pool_verify("after a later mutation of the container");
        if ((op & 7) == 0 && vf_san_poll()) break;
    }
    T->free(T); released("qtreetbl");
}

/* ======================================================================== hash table */
static void run_hashtbl(long caseno) {
    vf_case_begin(caseno, "qhashtbl ownership history");
    mm_reset(); mark = vf_ledger_mark();
    qhashtbl_t *T = qhashtbl(rng_chance(&R, 1, 2) ? 3 : 0, 0); if (!T) exit(2);
    int nops = VF.thorough ? 2000 : 800;
    for (int op = 0; op < nops && !abandon; op++) {
        int id = (int)rng_below(&R, NK); uint32_t c = rng_below(&R, 100); bool mut = false;
        if (c < 40) { int kind = (int)rng_below(&R, 3); size_t vl0 = vctr, vl = gval_near(kind, MP[id] ? MV[id] : NULL, MP[id] ? MVL[id] : 0); if (vl && memchr(VB, 0, vl - 1)) kind = 0; (void)vl0; cb_t k = cb(KEYS[id], strlen(KEYS[id]) + 1), v = cb(VB, vl);
            vf_log("put %s v=%s", KEYS[id], vf_hex(VB, vl));
            bool r = kind == 1 && rng_chance(&R, 1, 2) ? (rng_chance(&R, 1, 2) ? T->putstrf(T, (char *)k.p, "%s", (char *)v.p) : T->putstr(T, (char *)k.p, (char *)v.p)) : T->put(T, (char *)k.p, v.p, v.n);
            cb_kill(&k); cb_kill(&v); if (!r) { bad("put-failed", "put failed"); break; } mm_put(id, VB, vl); mut = true; }
        else if (c < 55) { vf_log("remove %s", KEYS[id]); cb_t k = cb(KEYS[id], strlen(KEYS[id]) + 1); T->remove(T, (char *)k.p); cb_kill(&k); mm_del(id); mut = true; }
        else if (c < 75) { vf_log("get(newmem) %s", KEYS[id]); if (MP[id]) { size_t sz = 0; void *in = T->get(T, KEYS[id], NULL, false);
            bool str = MV[id][MVL[id] - 1] == 0 && strlen((char *)MV[id]) + 1 == MVL[id] && rng_chance(&R, 1, 2);
            FB(); void *d = str ? (void *)T->getstr(T, KEYS[id], true) : T->get(T, KEYS[id], &sz, true); FE(); if (str && d) sz = strlen(d) + 1;
            if (!refused(d)) retain(str ? "qhashtbl.getstr" : "qhashtbl.get", d, sz, MV[id], MVL[id], in); } }
        else if (c < 90) { vf_log("walk(newmem)"); qhashtbl_obj_t o; memset(&o, 0, sizeof o); int n = 0;
            while (!abandon && T->getnext(T, &o, true)) { int k = mm_id(o.name, strlen(o.name) + 1);
                if (k < 0 || !MP[k]) { bad("walk-foreign", "walk returned a key that is not stored"); break; }
                void *in = T->get(T, KEYS[k], NULL, false);
                retain("qhashtbl.getnext(name)", o.name, strlen(o.name) + 1, KEYS[k], strlen(KEYS[k]) + 1, NULL);
                if (!abandon) retain("qhashtbl.getnext(data)", o.data, o.size, MV[k], MVL[k], in);
                if (++n > NK) break; } }
        else if (c < 92) { vf_log("clear"); T->clear(T); for (int i = 0; i < NK; i++) mm_del(i); mut = true; }
        vf_count("evaluations", 1);
        if (mut && !abandon) pool_verify("after a later mutation of the container");
        if ((op & 7) == 0 && vf_san_poll()) break;
    }
    T->free(T); released("qhashtbl");
}

/* ======================================================================== static hash table */
static void run_hasharr(long caseno) {
    vf_case_begin(caseno, "qhasharr ownership history");
    mm_reset(); mark = vf_ledger_mark();
    size_t ms = qhasharr_calculate_memsize(24);
    void *mem = hm_alloc(ms);
    qhasharr_t *T = qhasharr(mem, ms); if (!T) exit(2);
    int nops = VF.thorough ? 2000 : 800;
    for (int op = 0; op < nops && !abandon; op++) {
        int id = (int)rng_below(&R, NK); uint32_t c = rng_below(&R, 100); bool mut = false;
        if (c < 40) { int kind = (int)rng_below(&R, 3); size_t vl0 = vctr, vl = gval_near(kind, MP[id] ? MV[id] : NULL, MP[id] ? MVL[id] : 0); if (vl && memchr(VB, 0, vl - 1)) kind = 0; (void)vl0; cb_t k = cb(KEYS[id], strlen(KEYS[id]) + 1), v = cb(VB, vl);
            vf_log("put %s v=%s", KEYS[id], vf_hex(VB, vl));
            bool r = kind == 1 && rng_chance(&R, 1, 2) ? (rng_chance(&R, 1, 2) ? T->putstrf(T, (char *)k.p, "%s", (char *)v.p) : T->putstr(T, (char *)k.p, (char *)v.p)) : T->put_by_obj(T, k.p, k.n, v.p, v.n);
            cb_kill(&k); cb_kill(&v);
            if (r) mm_put(id, VB, vl); else { void *g = T->get(T, KEYS[id], NULL); if (g) free(g); else mm_del(id); }   /* full table: own key unchanged or absent */
            mut = true; }
        else if (c < 55) { vf_log("remove %s", KEYS[id]); cb_t k = cb(KEYS[id], strlen(KEYS[id]) + 1); T->remove(T, (char *)k.p); cb_kill(&k); mm_del(id); mut = true; }
        else if (c < 75) { vf_log("get %s", KEYS[id]); if (MP[id]) { size_t sz = 0;
            bool str = MV[id][MVL[id] - 1] == 0 && strlen((char *)MV[id]) + 1 == MVL[id] && rng_chance(&R, 1, 2);
            FB(); void *d = str ? (void *)T->getstr(T, KEYS[id]) : T->get_by_obj(T, KEYS[id], strlen(KEYS[id]) + 1, &sz); FE(); if (str && d) sz = strlen(d) + 1;
            if (refused(d)) ; else if (d && ((char *)d >= (char *)mem && (char *)d < (char *)mem + ms)) bad("copy-aliases-internal", "qhasharr get returned a pointer into the table memory");
            else retain(str ? "qhasharr.getstr" : "qhasharr.get", d, sz, MV[id], MVL[id], NULL); } }
        else if (c < 90) { vf_log("walk"); qhasharr_obj_t o; int idx = 0, n = 0;
            while (!abandon && T->getnext(T, &o, &idx)) {
                /* keys longer than the in-slot area come back as their stored 16-byte prefix (documented truncation); the test keys differ within their first 5 bytes */
                int k = -1; for (int i = 0; i < NK; i++) { size_t full = strlen(KEYS[i]) + 1, want = full > 16 ? 16 : full; if (o.namesize == want && !memcmp(o.name, KEYS[i], want)) k = i; }
                if (k < 0 || !MP[k]) { bad("walk-foreign", "walk returned a key that is not stored"); break; }
                retain("qhasharr.getnext(name)", o.name, o.namesize, KEYS[k], o.namesize, NULL);
                if (!abandon) retain("qhasharr.getnext(data)", o.data, o.datasize, MV[k], MVL[k], NULL);
                if (++n > NK) break; } }
        else if (c < 92) { vf_log("clear"); T->clear(T); for (int i = 0; i < NK; i++) mm_del(i); mut = true; }
        vf_count("evaluations", 1);
        if (mut && !abandon) pool_verify("after a later mutation of the container");
        if ((op & 7) == 0 && vf_san_poll()) break;
    }
    T->free(T); memset(mem, 0xA5, ms); hm_free(mem); released("qhasharr");
}

/* ======================================================================== list table (multimap: model keeps order) */
typedef struct { int id; unsigned char *v; size_t n; } le_t;
static le_t LT[256]; static int NLT;
static void run_listtbl(long caseno) {
    vf_case_begin(caseno, "qlisttbl ownership history");
    mm_reset(); NLT = 0; mark = vf_ledger_mark();
    bool fwd = rng_chance(&R, 1, 2);
    qlisttbl_t *T = qlisttbl(fwd ? QLISTTBL_LOOKUPFORWARD : 0); if (!T) exit(2);
    int nops = VF.thorough ? 2000 : 800;
    for (int op = 0; op < nops && !abandon; op++) {
        int id = (int)rng_below(&R, 5); uint32_t c = rng_below(&R, 100); bool mut = false;
        if (c < 40 && NLT < 200) { int kind = (int)rng_below(&R, 3); size_t vl = gval(kind); cb_t k = cb(KEYS[id], strlen(KEYS[id]) + 1), v = cb(VB, vl);
            vf_log("put %s v=%s", KEYS[id], vf_hex(VB, vl));
            bool r = kind == 1 && rng_chance(&R, 1, 2) ? (rng_chance(&R, 1, 2) ? T->putstrf(T, (char *)k.p, "%s", (char *)v.p) : T->putstr(T, (char *)k.p, (char *)v.p)) : T->put(T, (char *)k.p, v.p, v.n);
            cb_kill(&k); cb_kill(&v); if (!r) { bad("put-failed", "put failed"); break; }
            LT[NLT].id = id; LT[NLT].v = vf_xdup(VB, vl); LT[NLT].n = vl; NLT++; mut = true; }
        else if (c < 52) { vf_log("remove %s", KEYS[id]); T->remove(T, KEYS[id]); int w = 0; for (int i = 0; i < NLT; i++) { if (LT[i].id == id) hm_free(LT[i].v); else LT[w++] = LT[i]; } NLT = w; mut = true; }
        else if (c < 68) { /* get: first match in lookup direction */
            int m = -1; for (int i = 0; i < NLT; i++) { int p = fwd ? i : NLT - 1 - i; if (LT[p].id == id) { m = p; break; } }
            vf_log("get(newmem) %s", KEYS[id]);
            if (m >= 0) { size_t sz = 0; void *in = T->get(T, KEYS[id], NULL, false);
                bool str = LT[m].v[LT[m].n - 1] == 0 && strlen((char *)LT[m].v) + 1 == LT[m].n && rng_chance(&R, 1, 2);
                FB(); void *d = str ? (void *)T->getstr(T, KEYS[id], true) : T->get(T, KEYS[id], &sz, true); FE(); if (str && d) sz = strlen(d) + 1;
                if (!refused(d)) retain(str ? "qlisttbl.getstr" : "qlisttbl.get", d, sz, LT[m].v, LT[m].n, in); } }
        else if (c < 80) { vf_log("getmulti(newmem) %s", KEYS[id]); size_t n = 0; FB(); qlisttbl_data_t *objs = T->getmulti(T, KEYS[id], true, &n); FE(); size_t k = 0;
            if (!refused(objs)) for (int i = 0; i < NLT && !abandon; i++) { int p = fwd ? i : NLT - 1 - i; if (LT[p].id != id) continue;
                if (k >= n) { bad("getmulti-short", "getmulti returned %zu entries", n); break; }
                retain("qlisttbl.getmulti", objs[k].data, objs[k].size, LT[p].v, LT[p].n, NULL); objs[k].data = NULL; k++; }
            if (objs) { for (size_t j = k; j < n; j++) free(objs[j].data); free(objs); } }
        else if (c < 92) { vf_log("walk(newmem)"); qlisttbl_obj_t o; memset(&o, 0, sizeof o); int i = 0;
            while (!abandon && T->getnext(T, &o, NULL, true)) { if (i >= NLT) { bad("walk-extra", "walk too long"); free(o.name); free(o.data); break; }
                int p = fwd ? i : NLT - 1 - i;
                retain("qlisttbl.getnext(name)", o.name, strlen(o.name) + 1, KEYS[LT[p].id], strlen(KEYS[LT[p].id]) + 1, NULL);
                if (!abandon) retain("qlisttbl.getnext(data)", o.data, o.size, LT[p].v, LT[p].n, NULL); i++; } }
        else if (c < 94) { vf_log("clear"); T->clear(T); for (int i = 0; i < NLT; i++) hm_free(LT[i].v); NLT = 0; mut = true; }
        vf_count("evaluations", 1);
        if (mut && !abandon) pool_verify("after a later mutation of the container");
        if ((op & 7) == 0 && vf_san_poll()) break;
    }
    T->free(T); for (int i = 0; i < NLT; i++) hm_free(LT[i].v); NLT = 0; released("qlisttbl");
}

/* ======================================================================== sequences: list / queue / stack / grow */
typedef struct { unsigned char *d; size_t n; } se_t;
static se_t SQ[512]; static int NSQ;
static void sq_ins(int pos, const void *d, size_t n) { memmove(&SQ[pos + 1], &SQ[pos], sizeof(se_t) * (size_t)(NSQ - pos)); SQ[pos].d = vf_xdup(d, n); SQ[pos].n = n; NSQ++; }
static void sq_del(int pos) { hm_free(SQ[pos].d); memmove(&SQ[pos], &SQ[pos + 1], sizeof(se_t) * (size_t)(NSQ - pos - 1)); NSQ--; }
static void sq_clear(void) { while (NSQ) sq_del(NSQ - 1); }
static void *sq_flat(size_t *n, bool as_string) { size_t t = 0; for (int i = 0; i < NSQ; i++) t += SQ[i].n; unsigned char *b = hm_alloc(t + 1); size_t o = 0;
    for (int i = 0; i < NSQ; i++) { size_t k = SQ[i].n; if (as_string && SQ[i].d[k - 1] == 0) k--; memcpy(b + o, SQ[i].d, k); o += k; } if (as_string) b[o++] = 0; *n = o; return b; }

static void run_list(long caseno) {
    vf_case_begin(caseno, "qlist ownership history");
    sq_clear(); mark = vf_ledger_mark();
    qlist_t *L = qlist(0); if (!L) exit(2);
    int nops = VF.thorough ? 2000 : 800;
    for (int op = 0; op < nops && !abandon; op++) {
        uint32_t c = rng_below(&R, 100); bool mut = false;
        int pos = NSQ ? (int)rng_below(&R, (uint32_t)NSQ) : 0;
        if (c < 36 && NSQ < 400) { size_t vl = gval((int)rng_below(&R, 3)); cb_t v = cb(VB, vl); int ip = (int)rng_below(&R, (uint32_t)NSQ + 1);
            vf_log("addat %d v=%s", ip, vf_hex(VB, vl));
            bool r = ip == 0 ? L->addfirst(L, v.p, v.n) : ip == NSQ ? L->addlast(L, v.p, v.n) : L->addat(L, ip, v.p, v.n); cb_kill(&v);
            if (!r) { bad("add-failed", "add failed"); break; } sq_ins(ip, VB, vl); mut = true; }
        else if (c < 52 && NSQ) { size_t sz = 0; int how = (int)rng_below(&R, 3); int p = how == 0 ? 0 : how == 1 ? NSQ - 1 : pos;
            vf_log("get(newmem) %d", p);
            void *in = L->getat(L, p, NULL, false);
            FB(); void *d = how == 0 ? L->getfirst(L, &sz, true) : how == 1 ? L->getlast(L, &sz, true) : L->getat(L, p, &sz, true); FE();
            if (!refused(d)) retain(how == 0 ? "qlist.getfirst" : how == 1 ? "qlist.getlast" : "qlist.getat", d, sz, SQ[p].d, SQ[p].n, in); }
        else if (c < 68 && NSQ) { size_t sz = 0; int how = (int)rng_below(&R, 3); int p = how == 0 ? 0 : how == 1 ? NSQ - 1 : pos;
            vf_log("pop %d", p);
            void *d = how == 0 ? L->popfirst(L, &sz) : how == 1 ? L->poplast(L, &sz) : L->popat(L, p, &sz);
            retain(how == 0 ? "qlist.popfirst" : how == 1 ? "qlist.poplast" : "qlist.popat", d, sz, SQ[p].d, SQ[p].n, NULL); sq_del(p); mut = true; }
        else if (c < 76 && NSQ) { vf_log("toarray/tostring"); size_t sz = 0, en; FB(); void *a = L->toarray(L, &sz); FE(); void *e = sq_flat(&en, false); if (!refused(a)) retain("qlist.toarray", a, sz, e, en, NULL); hm_free(e);
            if (!abandon) { FB(); char *s = L->tostring(L); FE(); e = sq_flat(&en, true); if (!refused(s)) retain("qlist.tostring", s, s ? strlen(s) + 1 : 0, e, strlen(e) + 1, NULL); hm_free(e); } }
        else if (c < 86) { vf_log("walk(newmem)"); qlist_obj_t o; memset(&o, 0, sizeof o); int i = 0;
            while (!abandon && L->getnext(L, &o, true)) { if (i >= NSQ) { bad("walk-extra", "walk too long"); free(o.data); break; } retain("qlist.getnext", o.data, o.size, SQ[i].d, SQ[i].n, NULL); i++; } }
        else if (c < 92 && NSQ) { vf_log("removeat %d", pos); L->removeat(L, pos); sq_del(pos); mut = true; }
        else if (c < 94) { vf_log("clear"); L->clear(L); sq_clear(); mut = true; }
        vf_count("evaluations", 1);
        if (mut && !abandon) pool_verify("after a later mutation of the container");
        if ((op & 7) == 0 && vf_san_poll()) break;
    }
    L->free(L); sq_clear(); released("qlist");
}

static void run_qs(long caseno, bool is_stack) {
    vf_case_begin(caseno, "%s ownership history", is_stack ? "qstack" : "qqueue");
    sq_clear(); mark = vf_ledger_mark();
    qqueue_t *Q = is_stack ? NULL : qqueue(0); qstack_t *S = is_stack ? qstack(0) : NULL;
    int nops = VF.thorough ? 2000 : 800;
#define QS(a, b) (is_stack ? (b) : (a))
    for (int op = 0; op < nops && !abandon; op++) {
        uint32_t c = rng_below(&R, 100); bool mut = false;
        if (c < 40 && NSQ < 400) { int kind = (int)rng_below(&R, 3); size_t vl = gval(kind); cb_t v = cb(VB, vl);
            vf_log("push v=%s", vf_hex(VB, vl));
            bool r = kind == 1 && rng_chance(&R, 1, 2) ? QS(Q->pushstr(Q, (char *)v.p), S->pushstr(S, (char *)v.p)) : QS(Q->push(Q, v.p, v.n), S->push(S, v.p, v.n)); cb_kill(&v);
            if (!r) { bad("push-failed", "push failed"); break; } sq_ins(is_stack ? 0 : NSQ, VB, vl); mut = true; }
        else if (c < 60 && NSQ) { bool str = SQ[0].d[SQ[0].n - 1] == 0 && strlen((char *)SQ[0].d) + 1 == SQ[0].n && rng_chance(&R, 1, 2); size_t sz = 0;
            vf_log("pop%s", str ? "str" : "");
            void *d = str ? (void *)QS(Q->popstr(Q), S->popstr(S)) : QS(Q->pop(Q, &sz), S->pop(S, &sz)); if (str && d) sz = strlen(d) + 1;
            retain(is_stack ? (str ? "qstack.popstr" : "qstack.pop") : (str ? "qqueue.popstr" : "qqueue.pop"), d, sz, SQ[0].d, SQ[0].n, NULL); sq_del(0); mut = true; }
        else if (c < 75 && NSQ) { bool str = SQ[0].d[SQ[0].n - 1] == 0 && strlen((char *)SQ[0].d) + 1 == SQ[0].n && rng_chance(&R, 1, 2); size_t sz = 0;
            vf_log("get%s", str ? "str" : "");
            void *in = QS(Q->get(Q, NULL, false), S->get(S, NULL, false));
            FB(); void *d = str ? (void *)QS(Q->getstr(Q), S->getstr(S)) : QS(Q->get(Q, &sz, true), S->get(S, &sz, true)); FE(); if (str && d) sz = strlen(d) + 1;
            if (!refused(d)) retain(is_stack ? (str ? "qstack.getstr" : "qstack.get") : (str ? "qqueue.getstr" : "qqueue.get"), d, sz, SQ[0].d, SQ[0].n, in); }
        else if (c < 90 && NSQ) { int p = (int)rng_below(&R, (uint32_t)NSQ); bool pop = rng_chance(&R, 1, 2); size_t sz = 0;
            vf_log("%s %d", pop ? "popat" : "getat", p);
            void *d = pop ? QS(Q->popat(Q, p, &sz), S->popat(S, p, &sz)) : QS(Q->getat(Q, p, &sz, true), S->getat(S, p, &sz, true));
            retain(is_stack ? (pop ? "qstack.popat" : "qstack.getat") : (pop ? "qqueue.popat" : "qqueue.getat"), d, sz, SQ[p].d, SQ[p].n, NULL); if (pop) { sq_del(p); mut = true; } }
        else if (c < 92) { vf_log("clear"); if (is_stack) S->clear(S); else Q->clear(Q); sq_clear(); mut = true; }
        vf_count("evaluations", 1);
        if (mut && !abandon) pool_verify("after a later mutation of the container");
        if ((op & 7) == 0 && vf_san_poll()) break;
    }
    if (is_stack) S->free(S); else Q->free(Q);
    sq_clear(); released(is_stack ? "qstack" : "qqueue");
}

static void run_grow(long caseno) {
    vf_case_begin(caseno, "qgrow ownership history");
    sq_clear(); mark = vf_ledger_mark();
    qgrow_t *G = qgrow(0); if (!G) exit(2);
    int nops = VF.thorough ? 1000 : 400;
    for (int op = 0; op < nops && !abandon; op++) {
        uint32_t c = rng_below(&R, 100); bool mut = false;
        if (c < 60 && NSQ < 300) { int kind = (int)rng_below(&R, 3); size_t vl = gval(kind); cb_t v = cb(VB, vl);
            vf_log("add v=%s", vf_hex(VB, vl));
            bool str = kind == 1 && rng_chance(&R, 1, 2);
            bool r = str ? (rng_chance(&R, 1, 2) ? G->addstrf(G, "%s", (char *)v.p) : G->addstr(G, (char *)v.p)) : G->add(G, v.p, v.n); cb_kill(&v);
            if (!r) { bad("add-failed", "grow add failed"); break; } sq_ins(NSQ, VB, str ? vl - 1 : vl); mut = true; }
        else if (c < 90 && NSQ) { vf_log("toarray/tostring"); size_t sz = 0, en; FB(); void *a = G->toarray(G, &sz); FE(); void *e = sq_flat(&en, false); if (!refused(a)) retain("qgrow.toarray", a, sz, e, en, NULL); hm_free(e);
            if (!abandon) { FB(); char *s = G->tostring(G); FE(); e = sq_flat(&en, true); if (!refused(s)) retain("qgrow.tostring", s, s ? strlen(s) + 1 : 0, e, strlen(e) + 1, NULL); hm_free(e); } }
        else if (c < 93) { vf_log("clear"); G->clear(G); sq_clear(); mut = true; }
        vf_count("evaluations", 1);
        if (mut && !abandon) pool_verify("after a later mutation of the container");
        if ((op & 7) == 0 && vf_san_poll()) break;
    }
    G->free(G); sq_clear(); released("qgrow");
}

/* ======================================================================== vector */
static void run_vector(long caseno) {
    static const size_t ESZ[5] = {1, 3, 8, 17, 64};
    size_t es = ESZ[rng_below(&R, 5)];
    vf_case_begin(caseno, "qvector ownership history elemsize=%zu", es);
    sq_clear(); mark = vf_ledger_mark();
    qvector_t *V = qvector(rng_below(&R, 4), es, (int[]){QVECTOR_RESIZE_EXACT, QVECTOR_RESIZE_LINEAR, QVECTOR_RESIZE_DOUBLE}[rng_below(&R, 3)]); if (!V) exit(2);
    int nops = VF.thorough ? 2000 : 800;
    for (int op = 0; op < nops && !abandon; op++) {
        uint32_t c = rng_below(&R, 100); bool mut = false;
        int pos = NSQ ? (int)rng_below(&R, (uint32_t)NSQ) : 0;
        if (c < 36 && NSQ < 300) { for (size_t i = 0; i < es; i++) VB[i] = rng_chance(&R, 1, 6) ? 0 : (unsigned char)rng_below(&R, 256); if (rng_chance(&R, 1, 10)) memset(VB, 0, es);
            cb_t v = cb(VB, es); int ip = (int)rng_below(&R, (uint32_t)NSQ + 1);
            vf_log("addat %d e=%s", ip, vf_hex(VB, es));
            bool r = ip == 0 ? V->addfirst(V, v.p) : ip == NSQ ? V->addlast(V, v.p) : V->addat(V, ip, v.p); cb_kill(&v);
            if (!r) { bad("add-failed", "vector add failed"); break; } sq_ins(ip, VB, es); mut = true; }
        else if (c < 46 && NSQ) { for (size_t i = 0; i < es; i++) VB[i] = (unsigned char)rng_below(&R, 256); cb_t v = cb(VB, es);
            vf_log("setat %d", pos); bool r = V->setat(V, pos, v.p); cb_kill(&v); if (!r) { bad("set-failed", "setat failed"); break; } memcpy(SQ[pos].d, VB, es); mut = true; }
        else if (c < 60 && NSQ) { int how = (int)rng_below(&R, 3); int p = how == 0 ? 0 : how == 1 ? NSQ - 1 : pos;
            vf_log("get(newmem) %d", p);
            void *in = V->getat(V, p, false);
            FB(); void *d = how == 0 ? V->getfirst(V, true) : how == 1 ? V->getlast(V, true) : V->getat(V, p, true); FE();
            if (!refused(d)) retain(how == 0 ? "qvector.getfirst" : how == 1 ? "qvector.getlast" : "qvector.getat", d, es, SQ[p].d, es, in); }
        else if (c < 74 && NSQ) { int how = (int)rng_below(&R, 3); int p = how == 0 ? 0 : how == 1 ? NSQ - 1 : pos;
            vf_log("pop %d", p);
            void *d = how == 0 ? V->popfirst(V) : how == 1 ? V->poplast(V) : V->popat(V, p);
            retain(how == 0 ? "qvector.popfirst" : how == 1 ? "qvector.poplast" : "qvector.popat", d, es, SQ[p].d, es, NULL); sq_del(p); mut = true; }
        else if (c < 80 && NSQ) { vf_log("toarray"); size_t cnt = 0, en; FB(); void *a = V->toarray(V, &cnt); FE(); void *e = sq_flat(&en, false); if (!refused(a)) retain("qvector.toarray", a, cnt * es, e, en, V->data); hm_free(e); }
        else if (c < 88) { vf_log("walk(newmem)"); qvector_obj_t o; memset(&o, 0, sizeof o); int i = 0;
            while (!abandon && V->getnext(V, &o, true)) { if (i >= NSQ) { bad("walk-extra", "walk too long"); free(o.data); break; } retain("qvector.getnext", o.data, es, SQ[i].d, es, (char *)V->data + (size_t)i * es); i++; } }
        else if (c < 93 && NSQ) { vf_log("removeat %d", pos); V->removeat(V, pos); sq_del(pos); mut = true; }
        else if (c < 95) { vf_log("resize"); size_t k = (size_t)NSQ + rng_below(&R, 5); V->resize(V, k ? k : 1); mut = true; }
        else if (c < 96) { vf_log("clear"); V->clear(V); sq_clear(); mut = true; }
        vf_count("evaluations", 1);
        if (mut && !abandon) pool_verify("after a later mutation of the container");
        if ((op & 7) == 0 && vf_san_poll()) break;
    }
    V->free(V); sq_clear(); released("qvector");
}

int main(int argc, char **argv) {
    vf_init(argc, argv, "h_own");
    vf_errno_entry = 1; vf_op_budget_ms = VF.thorough ? 120000 : 10000;   /* stale errno on entry of every logged operation; a call that never returns is hang:operation */
    if (strcmp(VF.prop, "C12")) { fprintf(stderr, "h_own: unsupported property %s\n", VF.prop); return 2; }
    vf_ledger_enable(true);
    long ncases = vf_arg_long("cases", 150 * 9);
    for (long c = 0; c < ncases; c++) {
        if (!vf_mine(c)) continue;
        rng_seed(&R, VF.seed, (uint64_t)c);
        abandon = false;
        switch ((c / (VF.nshards > 0 ? VF.nshards : 1)) % 9) {
        case 0: run_tree(c); break; case 1: run_hashtbl(c); break; case 2: run_hasharr(c); break; case 3: run_listtbl(c); break;
        case 4: run_list(c); break; case 5: run_qs(c, false); break; case 6: run_qs(c, true); break; case 7: run_grow(c); break; default: run_vector(c); break;
        }
        vf_san_poll();
        vf_count(abandon ? "histories_abandoned" : "histories_completed", 1);
    }
    if (VF.shard == 0) vf_sample("per container: random history of put-like calls (key/value in exact-size heap blocks, overwritten with 0xA5 and freed right after the call) and copying accessors; each returned copy is compared with the model, must be its own allocation, is kept in a pool re-verified after every mutation and after the container is freed, then freed");
    return vf_finish() ? 1 : 0;
}
