/* h_hasharr.c - static hash table (qhasharr) under the monitors of C06 and C07
 * (and C11 in the asan build).
 *
 *  C06  bounded-map model with slot arithmetic and the exact fit predicate
 *  C07  (i) guard zones around the user region (pattern-verified; poisoned in the asan build)
 *       (ii) attach a second handle to the same region and to a byte copy at another
 *            address: identical walk / get-all / counters; histories switch over to the copy
 *       (iii) independent walker over the slot graph
 *  phase A: breadth-first over every image reachable for small capacities (snapshot /
 *           restore of the flat image by memcpy); phase B: seeded random histories.
 */
#define _GNU_SOURCE
#include <stdlib.h>
#include <string.h>
#include <errno.h>
#include "qlibc.h"
#include "vfc.h"
/* the print helpers (debug()) run on real contents now and then: C11 covers what they read */
static FILE *DEVNULL; static unsigned long DBGCTR;
#define DEBUG_NOW() (((++DBGCTR) % 61) == 0 && (DEVNULL || (DEVNULL = fopen("/dev/null", "w"))))

#include "ref_hash.h"
#ifdef __SANITIZE_ADDRESS__
#include <sanitizer/asan_interface.h>
#define POISON(p, n) ASAN_POISON_MEMORY_REGION(p, n)
#define UNPOISON(p, n) ASAN_UNPOISON_MEMORY_REGION(p, n)
#define GUARD (64 * 1024)
#else
#define POISON(p, n) ((void)0)
#define UNPOISON(p, n) ((void)0)
#define GUARD 2048
#endif

#define DS (sizeof(((qhasharr_slot_t *)0)->data.pair.data))    /* value bytes in a key slot */
#define ES (sizeof(((qhasharr_slot_t *)0)->data.ext.data))     /* value bytes in an extension slot */
#define NS (sizeof(((qhasharr_slot_t *)0)->data.pair.name))    /* key bytes kept in the slot */

static rng_t R;
static int P;                       /* 6, 7 or 11 */
static bool abandon, foreign_mismatch;

/* ---- arena: guard | region | guard ; plus a second arena for relocated copies */
typedef struct { unsigned char *base; size_t size; unsigned char *region; size_t rsize; } arena_t;
static arena_t A1, A2;
static void arena_setup(arena_t *a, size_t rsize, size_t shift) {
    a->size = GUARD * 2 + rsize + 64; a->base = hm_alloc(a->size);
    memset(a->base, 0xEE, a->size);
    a->region = a->base + GUARD + shift; a->rsize = rsize;
    POISON(a->base, (size_t)(a->region - a->base));
    POISON(a->region + rsize, a->size - (size_t)(a->region + rsize - a->base));
}
static bool arena_guards_intact(arena_t *a) {
#ifdef __SANITIZE_ADDRESS__
    (void)a; return true;
#else
    for (unsigned char *p = a->base; p < a->region; p++) if (*p != 0xEE) return false;
    for (unsigned char *p = a->region + a->rsize; p < a->base + a->size; p++) if (*p != 0xEE) return false;
    return true;
#endif
}
static void arena_drop(arena_t *a) { if (a->base) { UNPOISON(a->base, a->size); hm_free(a->base); a->base = NULL; } }

/* ---- universe & model --------------------------------------------------- */
typedef struct { unsigned char *k, *base; size_t kl; unsigned char md5[16]; } ukey_t;   /* k = base + (index & 3): lookups pass this pointer, puts and removes a fresh (aligned) copy - equal keys, different alignment */
static ukey_t *UK; static int NU;
static unsigned char **MV; static size_t *MVL; static bool *MP; static int MN;
static qhasharr_t *T; static int CAP;
/* a second handle attached to the same region for the whole life of the table (another process on the shared mapping). Operations are issued
 * through either handle (the two swap roles at random), and after every operation the idle handle must observe what the model holds: whatever
 * a handle remembers between calls must not outlive a change made through the other one */
static qhasharr_t *T2;
static uint64_t USALT;

static size_t slots_of(size_t vl) { return vl <= DS ? 1 : 1 + (vl - DS + ES - 1) / ES; }
static long m_used(void) { long u = 0; for (int i = 0; i < NU; i++) if (MP[i]) u += (long)slots_of(MVL[i]); return u; }
static void m_put(int id, const void *v, size_t vl) { if (MP[id]) hm_free(MV[id]); else MN++; MV[id] = vf_xdup(v, vl); MVL[id] = vl; MP[id] = true; }
static bool m_remove(int id) { if (!MP[id]) return false; hm_free(MV[id]); MV[id] = NULL; MP[id] = false; MN--; return true; }
static void m_clear(void) { for (int i = 0; i < NU; i++) m_remove(i); }
static void universe_alloc(int n) {
    UK = hm_alloc(sizeof(ukey_t) * (size_t)n); NU = 0;
    MV = hm_alloc(sizeof(*MV) * (size_t)n); MVL = hm_alloc(sizeof(*MVL) * (size_t)n); MP = hm_alloc(sizeof(*MP) * (size_t)n);
    memset(MP, 0, sizeof(*MP) * (size_t)n); memset(MV, 0, sizeof(*MV) * (size_t)n); MN = 0;
}
static bool uk_add(const void *k, size_t kl) {
    for (int i = 0; i < NU; i++) if (UK[i].kl == kl && !memcmp(UK[i].k, k, kl)) return false;
    UK[NU].base = hm_alloc(kl + (size_t)(NU & 3)); UK[NU].k = UK[NU].base + (NU & 3); memcpy(UK[NU].k, k, kl); UK[NU].kl = kl; ref_md5(k, kl, UK[NU].md5); NU++;
    return true;
}
static void universe_free(void) {
    for (int i = 0; i < NU; i++) { hm_free(UK[i].base); if (MP[i]) hm_free(MV[i]); }
    hm_free(UK); hm_free(MV); hm_free(MVL); hm_free(MP); NU = 0; UK = NULL;
}

static bool judge(const char *prop, const char *key, const char *fmt, ...) __attribute__((format(printf, 3, 4)));
static bool judge(const char *prop, const char *key, const char *fmt, ...) {
    char msg[600]; va_list ap; va_start(ap, fmt); vsnprintf(msg, sizeof msg, fmt, ap); va_end(ap);
    abandon = true;
    bool mine = !strcmp(prop, VF.prop);
    if (mine) { vf_viol(prop, key, "%s", msg); return true; }
    foreign_mismatch = true;     /* the other property's oracle disagreed: this property's own walkers still get their look at the state (after_op) */
    vf_count("other_property_oracle_mismatch", 1);
    if (VF.verbose) fprintf(stderr, "  (other property %s %s: %s)\n", prop, key, msg);
    return true;
}

/* ---- image access -------------------------------------------------------- */
static qhasharr_data_t *HDR(void *region) { return (qhasharr_data_t *)region; }
static qhasharr_slot_t *SLOTS(void *region) { return (qhasharr_slot_t *)((char *)region + sizeof(qhasharr_data_t)); }
/* which universe key lives in key slot s (by length, stored prefix and MD5)? */
static int slot_key_id(qhasharr_slot_t *s) {
    size_t ns = s->data.pair.namesize, keep = ns < NS ? ns : NS;
    for (int i = 0; i < NU; i++)
        if (UK[i].kl == ns && !memcmp(UK[i].k, s->data.pair.name, keep) && !memcmp(UK[i].md5, s->data.pair.namemd5, 16)) return i;
    return -1;
}

/* ---- C07 (iii): independent walker over the slot graph -------------------- */
static uint64_t image_walk(void *region, const char *prop) {
    qhasharr_data_t *h = HDR(region); qhasharr_slot_t *S = SLOTS(region);
    int n = h->maxslots;
    vf_count("images_walked", 1);
    if (n != CAP) { judge(prop, "img-maxslots", "maxslots=%d changed (capacity %d)", n, CAP); return 0; }
    int used = 0, keys = 0;
    int *owner = hm_alloc(sizeof(int) * (size_t)n);
    for (int i = 0; i < n; i++) owner[i] = -1;
    uint64_t hsh = VF_H0;
    for (int i = 0; i < n; i++) {
        short c = S[i].count;
        if (c == 0) continue;
        used++;
        if (c >= 1) {           /* leading slot */
            if (S[i].hash != (uint32_t)i) { judge(prop, "img-leading-hash", "leading slot %d stores home %u", i, S[i].hash); goto out; }
            int coll = 0;
            for (int j = 0; j < n; j++) if (S[j].count == -1 && S[j].hash == (uint32_t)i) coll++;
            if (c != 1 + coll) { judge(prop, "img-collision-count", "leading slot %d count=%d but %d collision slot(s) name it", i, c, coll); goto out; }
        } else if (c == -1) {   /* collision slot */
            uint32_t home = S[i].hash;
            if (home >= (uint32_t)n || home == (uint32_t)i || S[home].count < 2) { judge(prop, "img-collision-home", "collision slot %d names home %u which is not a leading slot with count>=2", i, home); goto out; }
        } else if (c == -2) {   /* extension slot */
            uint32_t prev = S[i].hash;
            if (prev >= (uint32_t)n || S[prev].count == 0 || S[prev].link != i) { judge(prop, "img-ext-backlink", "extension slot %d names predecessor %u whose link is %d", i, prev, prev < (uint32_t)n ? S[prev].link : -99); goto out; }
            if (S[i].datasize > ES) { judge(prop, "img-ext-size", "extension slot %d datasize %u", i, S[i].datasize); goto out; }
            continue;
        } else { judge(prop, "img-count", "slot %d has count %d", i, c); goto out; }
        /* key slot: name and value chain */
        keys++;
        if (S[i].data.pair.namesize == 0) { judge(prop, "img-namesize", "key slot %d has namesize 0", i); goto out; }
        if (S[i].datasize > DS) { judge(prop, "img-pair-size", "key slot %d datasize %u", i, S[i].datasize); goto out; }
        if (S[i].data.pair.namesize <= NS) {
            uint32_t home = ref_murmur3_32(S[i].data.pair.name, S[i].data.pair.namesize) % (uint32_t)n;
            uint32_t stored = c >= 1 ? (uint32_t)i : S[i].hash;
            if (home != stored) { judge(prop, "img-home", "key in slot %d belongs to home %u but is filed under %u", i, home, stored); goto out; }
        }
        int steps = 0, cur = i;
        while (1) {
            if (owner[cur] != -1) { judge(prop, "img-shared-slot", "slot %d belongs to two value chains (%d and %d)", cur, owner[cur], i); goto out; }
            owner[cur] = i;
            int l = S[cur].link;
            if (l == -1) break;
            if (l < 0 || l >= n) { judge(prop, "img-link-range", "slot %d link %d outside [0,%d)", cur, l, n); goto out; }
            if (S[l].count != -2) { judge(prop, "img-link-target", "slot %d links to slot %d which is not an extension block", cur, l); goto out; }
            if (S[l].hash != (uint32_t)cur) { judge(prop, "img-ext-backlink", "extension %d back-link %u != predecessor %d", l, S[l].hash, cur); goto out; }
            cur = l;
            if (++steps > n) { judge(prop, "img-chain-cycle", "value chain from slot %d does not terminate", i); goto out; }
        }
        hsh = vf_hash(&i, sizeof i, hsh) ^ (uint64_t)(steps * 131 + c);
    }
    for (int i = 0; i < n; i++) if (S[i].count == -2 && owner[i] == -1) { judge(prop, "img-orphan-ext", "extension slot %d is reached by no value chain", i); goto out; }
    if (h->usedslots != used) { judge(prop, "img-usedslots", "usedslots=%d but %d slots are occupied", h->usedslots, used); goto out; }
    if (h->num != keys) { judge(prop, "img-num", "num=%d but %d key slots exist", h->num, keys); goto out; }
out:
    hm_free(owner);
    return hsh;
}

/* normalised copy of the image for de-duplication (free slots and bytes beyond sizes zeroed) */
static uint64_t image_norm_hash(void *region) {
    qhasharr_data_t *h = HDR(region); qhasharr_slot_t *S = SLOTS(region);
    uint64_t x = vf_hash(h, sizeof *h, VF_H0);
    for (int i = 0; i < h->maxslots; i++) {
        qhasharr_slot_t z; memset(&z, 0, sizeof z);
        if (S[i].count != 0) {
            z.count = S[i].count; z.hash = S[i].hash; z.datasize = S[i].datasize; z.link = S[i].link;
            if (S[i].count == -2) memcpy(z.data.ext.data, S[i].data.ext.data, S[i].datasize <= ES ? S[i].datasize : ES);
            else { memcpy(z.data.pair.data, S[i].data.pair.data, S[i].datasize <= DS ? S[i].datasize : DS);
                   size_t ns = S[i].data.pair.namesize; memcpy(z.data.pair.name, S[i].data.pair.name, ns < NS ? ns : NS);
                   z.data.pair.namesize = S[i].data.pair.namesize; memcpy(z.data.pair.namemd5, S[i].data.pair.namemd5, 16); }
        }
        x = vf_hash(&z, sizeof z, x);
    }
    return x;
}

/* ---- observations through a handle -------------------------------------- */
/* digest of everything observable: size triple, get of every universe key, walk sequence */
static uint64_t observe(qhasharr_t *t, bool against_model, const char *prop) {
    if (DEBUG_NOW()) { t->debug(t, DEVNULL); vf_count("debug_prints", 1); }
    uint64_t d = VF_H0;
    int mx = -1, us = -1; int n = t->size(t, &mx, &us);
    d = vf_hash(&n, sizeof n, d); d = vf_hash(&mx, sizeof mx, d); d = vf_hash(&us, sizeof us, d);
    if (against_model) {
        if (n != MN) { judge(prop, "num", "size()=%d model keys=%d", n, MN); return 0; }
        if (mx != CAP) { judge(prop, "maxslots", "maxslots=%d capacity=%d", mx, CAP); return 0; }
        if (us != m_used()) { judge(prop, "usedslots", "usedslots=%d model=%ld", us, m_used()); return 0; }
    }
    for (int id = 0; id < NU; id++) {
        size_t sz = 31337; errno = 0;
        static unsigned long obsctr; obsctr++;
        bool kstr = UK[id].k[UK[id].kl - 1] == 0 && strlen((char *)UK[id].k) + 1 == UK[id].kl;
        void *v;
        if (kstr && (obsctr + (unsigned long)id) % 3 == 1) v = t->get(t, (char *)UK[id].k, &sz);                         /* the C-string front ends of the same lookup */
        else if (kstr && (obsctr + (unsigned long)id) % 3 == 2 && MP[id] && MVL[id] && MV[id][MVL[id] - 1] == 0 && strlen((char *)MV[id]) + 1 == MVL[id]) { v = t->getstr(t, (char *)UK[id].k); sz = v ? strlen(v) + 1 : 0; }
        else v = t->get_by_obj(t, UK[id].k, UK[id].kl, &sz);
        if (against_model) {
            if (MP[id]) { if (!v) { judge(prop, "key-lost", "key %d vanished (errno %d)", id, errno); return 0; }
                          if (sz != MVL[id] || memcmp(v, MV[id], sz)) { judge(prop, "value-changed", "key %d holds a wrong value (size %zu, expected %zu)", id, sz, MVL[id]); free(v); return 0; } }
            else if (v) { judge(prop, "phantom-key", "absent key %d found", id); free(v); return 0; }
            else if (errno != ENOENT) { judge(prop, "get-errno", "get of absent key: errno=%d", errno); return 0; }
        }
        if (v) { d = vf_hash(v, sz, d); free(v); } else d = vf_hash("-", 1, d);
    }
    int idx = 0, cnt = 0; qhasharr_obj_t o;
    unsigned char *seen = hm_alloc((size_t)NU + 1); memset(seen, 0, (size_t)NU + 1);
    while (1) {
        errno = 0;
        if (!t->getnext(t, &o, &idx)) { if (against_model && errno != ENOENT) judge(prop, "walk-end-errno", "getnext end errno=%d", errno); break; }
        d = vf_hash(o.name, o.namesize, d); d = vf_hash(o.data, o.datasize, d);
        if (against_model) {
            qhasharr_slot_t *s = &SLOTS(t->data)[idx - 1];
            int id = slot_key_id(s);
            size_t keep = id >= 0 ? (UK[id].kl < NS ? UK[id].kl : NS) : 0;
            if (id < 0 || !MP[id] || seen[id]) judge(prop, "walk-foreign", "walk returned an entry that is not (or twice) a stored key (slot %d)", idx - 1);
            else if (o.namesize != keep || memcmp(o.name, UK[id].k, keep)) judge(prop, "walk-name", "walk returned wrong name for key %d", id);
            else if (o.datasize != MVL[id] || memcmp(o.data, MV[id], MVL[id])) judge(prop, "walk-value", "walk returned wrong value for key %d", id);
            else seen[id] = 1;
        }
        free(o.name); free(o.data);
        if (++cnt > CAP + 1 || abandon) break;
    }
    hm_free(seen);
    if (against_model && !abandon && cnt != MN) judge(prop, "walk-count", "walk returned %d of %d keys", cnt, MN);
    if (against_model && !abandon) vf_count("walks_audited", 1);
    return abandon ? 0 : d;
}

/* C07 (ii): second handle on the same memory and on a byte copy elsewhere */
static void attach_compare(void) {
    size_t rsize = A1.rsize;
    uint64_t d0 = observe(T, false, "C07");
    qhasharr_t *t2 = qhasharr(A1.region, 0);
    if (!t2) { judge("C07", "attach-failed", "qhasharr(mem,0) failed"); return; }
    uint64_t d1 = observe(t2, false, "C07");
    { int m1 = 0, u1 = 0, m2 = 0, u2 = 0; int n1 = T->size(T, &m1, &u1), n2 = t2->size(t2, &m2, &u2);
      if (n1 != n2 || m1 != m2 || u1 != u2) { t2->free(t2); judge("C07", "attach-counters", "a second handle on the same region reports size (%d,%d,%d), the first one (%d,%d,%d)", n2, m2, u2, n1, m1, u1); return; } }
    t2->free(t2);
    if (d1 != d0) { judge("C07", "attach-same-memory", "a second handle on the same region observes different contents"); return; }
    size_t shift = 4 * (1 + rng_below(&R, 12));
    arena_drop(&A2); arena_setup(&A2, rsize, shift);
    memcpy(A2.region, A1.region, rsize);
    qhasharr_t *t3 = qhasharr(A2.region, 0);
    if (!t3) { judge("C07", "attach-failed", "qhasharr(copy,0) failed"); return; }
    uint64_t d2 = observe(t3, false, "C07");
    t3->free(t3);
    vf_count("attach_relocate_comparisons", 1);
    vf_distinct("reloc_offsets", (uint64_t)(((uintptr_t)A2.region - (uintptr_t)A1.region) & 0xffff) + 1);
    if (d2 != d0) { judge("C07", "relocated-copy", "a handle on a byte copy at another address observes different contents"); return; }
    if (!arena_guards_intact(&A2)) { judge("C07", "guard-zone", "bytes outside the relocated region were written"); return; }
}
/* continue the history on the relocated copy */
static void switch_over(void) {
    if (!A2.base || A2.rsize != A1.rsize) return;
    memcpy(A2.region, A1.region, A1.rsize);
    T->free(T);
    arena_t t = A1; A1 = A2; A2 = t;
    T = qhasharr(A1.region, 0);
    if (!T) { fprintf(stderr, "attach failed\n"); exit(2); }
    if (T2) T2->free(T2);
    T2 = qhasharr(A1.region, 0); if (!T2) { fprintf(stderr, "attach failed\n"); exit(2); }
    vf_count("switch_overs_to_relocated_copy", 1);
    vf_log("switch-over to relocated copy");
}

static void after_op(bool full) {
    if (abandon && foreign_mismatch && (P == 7 || P == 11)) {   /* e.g. the map oracle (C06) saw a wrong result: is the image itself still well-formed? */
        foreign_mismatch = false; abandon = false;
        if (!arena_guards_intact(&A1)) judge(P == 11 ? "C11" : "C07", "guard-zone", "bytes outside the user region were written");
        else image_walk(A1.region, "C07");
        abandon = true; return;
    }
    if (abandon) return;
    if (!arena_guards_intact(&A1)) { judge(P == 11 ? "C11" : "C07", "guard-zone", "bytes outside the user region were written"); return; }
    if (P == 6 || P == 11) observe(T, true, "C06");
    if (P == 6 && full && !abandon) {   /* a second handle attached to the same memory ("use existing data") sees the same map and the same counters, and attaching changes nothing */
        qhasharr_t *t2 = qhasharr(A1.region, 0);
        if (!t2) { judge("C06", "attach-failed", "qhasharr(mem,0) failed"); return; }
        observe(t2, true, "C06"); t2->free(t2); vf_count("attached_handles_checked_against_the_model", 1);
        if (!abandon) observe(T, true, "C06");
    }
    if ((P == 7 || P == 11) && !abandon) {
        image_walk(A1.region, "C07");
        if (!abandon) observe(T, true, "C06");   /* model divergence would invalidate the rest of the history */
        if (!abandon && full) attach_compare();
    }
    if (T2 && !abandon) {   /* the long-lived second handle: same keys, values, counters and walk as the model; then the handles may swap roles */
        observe(T2, true, P == 6 ? "C06" : "C07"); vf_count("long_lived_second_handle_observations", 1);
        if (!abandon && rng_chance(&R, 1, 3)) { qhasharr_t *x = T; T = T2; T2 = x; vf_count("operations_switched_to_the_other_handle", 1); }
    }
}

/* ---- operations ----------------------------------------------------------- */
static unsigned char VBUF[1200];
static void value_for(int id, size_t vl, int salt) { for (size_t j = 0; j < vl; j++) VBUF[j] = (unsigned char)((id * 37 + salt * 101 + (int)j * 7 + (j >> 5)) & 0xff); }

static void op_put(int id, size_t vl, int salt, int api) {
    value_for(id, vl, salt);
    bool str_ok = UK[id].k[UK[id].kl - 1] == 0 && strlen((char *)UK[id].k) + 1 == UK[id].kl;
    if (api == 2) { for (size_t j = 0; j + 1 < vl; j++) if (!VBUF[j]) VBUF[j] = 'z'; VBUF[vl - 1] = 0; }
    if (!str_ok) api = 0;
    unsigned char *kb = vf_xdup(UK[id].k, UK[id].kl), *vb = vf_xdup(VBUF, vl);
    long freeslots = CAP - m_used();
    size_t need = slots_of(vl), old = MP[id] ? slots_of(MVL[id]) : 0;
    bool expect = freeslots >= 1 && (long)need <= freeslots + (long)old;
    vf_log("put[%d] k%d(len %zu) vlen=%zu slots=%zu free=%ld old=%zu expect=%d", api, id, UK[id].kl, vl, need, freeslots, old, expect);
    errno = 0; bool r;
    if (api == 1) r = T->put(T, (char *)kb, vb, vl);
    else if (api == 2) r = (salt & 1) ? T->putstrf(T, (char *)kb, "%s", (char *)vb) : T->putstr(T, (char *)kb, (char *)vb);
    else r = T->put_by_obj(T, kb, UK[id].kl, vb, vl);
    int e = errno;
    memset(kb, 0xA5, UK[id].kl); memset(vb, 0xA5, vl); hm_free(kb); hm_free(vb);
    vf_count(expect ? (old ? "put_replace_ok" : "put_new_ok") : (old ? "put_replace_refused" : "put_new_refused"), 1);
    if (r != expect) { judge("C06", expect ? "put-refused-though-fits" : "put-accepted-though-no-room", "put returned %d, fit rule says %d (free=%ld need=%zu old=%zu)", r, expect, freeslots, need, old); return; }
    if (r) m_put(id, VBUF, vl);
    else {
        if (e != ENOBUFS) { judge("C06", "put-errno", "refused put: errno=%d, expected ENOBUFS", e); return; }
        if (MP[id]) {   /* own key: unchanged or absent, never partial */
            size_t sz = 0; void *v = T->get_by_obj(T, UK[id].k, UK[id].kl, &sz);
            if (!v) { m_remove(id); vf_count("refused_put_dropped_own_key", 1); }
            else { if (sz != MVL[id] || memcmp(v, MV[id], sz)) judge("C06", "put-partial", "refused put left key %d with a different value", id);
                   else vf_count("refused_put_kept_own_key", 1); free(v); }
        }
    }
}
static void op_remove(int id, int api) {
    bool str_ok = UK[id].k[UK[id].kl - 1] == 0 && strlen((char *)UK[id].k) + 1 == UK[id].kl;
    unsigned char *kb = vf_xdup(UK[id].k, UK[id].kl);
    vf_log("remove[%d] k%d", api, id);
    errno = 0;
    bool r = (api && str_ok) ? T->remove(T, (char *)kb) : T->remove_by_obj(T, (char *)kb, UK[id].kl);
    int e = errno; hm_free(kb);
    bool m = m_remove(id);
    vf_count(m ? "remove_present" : "remove_absent", 1);
    if (r != m) judge("C06", "remove", "remove of key %d returned %d, model %d", id, r, m);
    else if (!r && e != ENOENT) judge("C06", "remove-errno", "remove of absent key errno=%d", e);
}
static void op_remove_by_idx(int idx) {
    qhasharr_slot_t *S = SLOTS(A1.region);
    int id = -1; bool promote = false;
    if (idx >= 0 && idx < CAP && (S[idx].count >= 1 || S[idx].count == -1)) { id = slot_key_id(&S[idx]); promote = S[idx].count > 1; }
    vf_log("remove_by_idx %d (key %d)", idx, id);
    errno = 0;
    bool r = T->remove_by_idx(T, idx);
    bool m = id >= 0 ? m_remove(id) : false;
    vf_count(idx >= CAP ? "remove_by_idx_out_of_range" : (m ? (promote ? "remove_by_idx_promoting_collision_key" : "remove_by_idx_key") : "remove_by_idx_nonkey"), 1);
    if (r != m) judge("C06", "remove_by_idx", "remove_by_idx(%d) returned %d, model %d", idx, r, m);
}

/* classification counters of the placement branch a put will take (read from the image before the call) */
static void classify_put(int id) {
    qhasharr_slot_t *S = SLOTS(A1.region);
    uint32_t home = ref_murmur3_32(UK[id].k, UK[id].kl) % (uint32_t)CAP;
    if (CAP - m_used() < 1) { vf_count("put_at_full_table", 1); return; }
    short c = S[home].count;
    vf_count(c == 0 ? "branch_empty_home" : c > 0 ? (MP[id] ? "branch_replace_existing" : "branch_same_home_chain") : c == -1 ? "branch_relocate_collision_block" : "branch_relocate_extension_block", 1);
}

static void table_new(int cap, size_t shift) {
    /* the user's region need not be a size calculate_memsize() returns: up to one slot minus a byte of slack stays unused (and untouched) */
    static unsigned long tn; tn++;
    size_t slot = qhasharr_calculate_memsize(2) - qhasharr_calculate_memsize(1);
    size_t slack = (size_t[]){0, 0, 1, slot - 4, slot - 1, slot - 3, slot / 2, slot - 2}[tn % 8];
    size_t rsize = qhasharr_calculate_memsize(cap) + slack;
    arena_drop(&A1); arena_drop(&A2);
    arena_setup(&A1, rsize, shift);
    T = qhasharr(A1.region, rsize);
    if (!T) { fprintf(stderr, "qhasharr(%d) failed errno=%d\n", cap, errno); exit(2); }
    CAP = cap; abandon = false; foreign_mismatch = false;
    if (T2) T2->free(T2);
    T2 = qhasharr(A1.region, 0); if (!T2) { fprintf(stderr, "qhasharr(mem,0) failed on a fresh table errno=%d\n", errno); exit(2); }
    if (slack) vf_count("regions_with_slack_bytes", 1);
    if (HDR(A1.region)->maxslots != cap) { judge(P == 6 ? "C06" : "C07", "header-capacity", "a region of %zu bytes (%d slots + %zu bytes) was initialised with maxslots=%d", rsize, cap, slack, HDR(A1.region)->maxslots); }
}
static void table_free(void) { if (T) T->free(T); T = NULL; if (T2) T2->free(T2); T2 = NULL; arena_drop(&A1); arena_drop(&A2); }

/* ---- phase A: exhaustive images ------------------------------------------- */
typedef struct { unsigned char *img; unsigned char m[8]; int depth; } st_t;
static const size_t VLEN[4] = {0, 5, 40, 120};   /* 1, 2 and 3 slots */
static uint64_t *SH; static size_t SHCAP, SHN;
static bool sh_add(uint64_t h) {
    if (!h) h = 1;
    if ((SHN + 1) * 10 >= SHCAP * 6) {
        size_t oc = SHCAP; uint64_t *ot = SH;
        SHCAP = oc ? oc * 2 : (1 << 14); SH = __real_calloc(SHCAP, 8); SHN = 0;
        if (!SH) exit(2);
        for (size_t i = 0; i < oc; i++) if (ot[i]) sh_add(ot[i]);
        hm_free(ot);
    }
    size_t i = (size_t)(h * 0x9E3779B97F4A7C15ULL >> 17) & (SHCAP - 1);
    while (SH[i]) { if (SH[i] == h) return false; i = (i + 1) & (SHCAP - 1); }
    SH[i] = h; SHN++;
    return true;
}
static void model_from(const unsigned char *m) {
    m_clear();
    for (int id = 0; id < NU; id++) if (m[id]) { value_for(id, VLEN[m[id]], m[id]); m_put(id, VBUF, VLEN[m[id]]); }
}
/* keys chosen by brute force so that homes collide: two keys on one home, two on the next
 * (one of them long), a second long key sharing the first 16 bytes and the length */
static void exhaustive_universe(int cap, int variant) {
    universe_alloc(8);
    uint32_t h0 = (uint32_t)variant % (uint32_t)cap, h1 = (h0 + 1) % (uint32_t)cap;
    uint32_t want[3] = {h0, h0, h1};
    char b[64];
    for (int w = 0; w < 3; w++)
        for (int n = variant * 1000; ; n++) { int l = snprintf(b, sizeof b, "k%d", n); if (ref_murmur3_32(b, (size_t)l + 1) % (uint32_t)cap == want[w] && uk_add(b, (size_t)l + 1)) break; }
    for (int n = 0; ; n++) { int l = snprintf(b, sizeof b, "LONGKEY-PREFIX16-%04d", n + variant * 100); if (ref_murmur3_32(b, (size_t)l + 1) % (uint32_t)cap == h1 && uk_add(b, (size_t)l + 1)) break; }
    for (int n = 0; ; n++) { int l = snprintf(b, sizeof b, "LONGKEY-PREFIX16-%04d", 5000 + n + variant * 100); if (uk_add(b, (size_t)l + 1)) break; }
}
static void phase_exhaustive(int maxcap, long statecap) {
    int cfg = VF.shard;
    int ncaps = maxcap - 1;
    int cap = 2 + cfg % ncaps, variant = cfg / ncaps;
    long caseno = 1000000000L + cfg;
    if (VF.only_case >= 0 && VF.only_case != caseno) return;
    if (VF.only_case < 0 && VF.start_case > caseno) return;
    rng_seed(&R, VF.seed, (uint64_t)caseno);
    exhaustive_universe(cap, variant);
    USALT = vf_hash(&cfg, sizeof cfg, VF_H0);
    vf_case_begin(caseno, "exhaustive images: capacity=%d variant=%d keys=%d", cap, variant, NU);
    vf_sample("exhaustive BFS over images: capacity=%d, keys %s %s %s %s %s, value lengths 5/40/120 (1/2/3 slots), ops put(k,len) remove(k) remove_by_idx(i)", cap,
              vf_hex(UK[0].k, UK[0].kl), vf_hex(UK[1].k, UK[1].kl), vf_hex(UK[2].k, UK[2].kl), vf_hex(UK[3].k, UK[3].kl), vf_hex(UK[4].k, UK[4].kl));
    table_new(cap, 0);
    size_t rsize = A1.rsize;
    st_t *Q = hm_alloc(sizeof(st_t) * 4096); size_t qcap = 4096, qn = 0, qh = 0;
    Q[0].img = vf_xdup(A1.region, rsize); memset(Q[0].m, 0, 8); Q[0].depth = 0; qn = 1;
    SH = NULL; SHCAP = SHN = 0; sh_add(image_norm_hash(A1.region));
    int nops = NU * 3 + NU + (cap + 3);
    long transitions = 0; bool capped = false;
    while (qh < qn) {
        st_t s = Q[qh++];
        for (int o = 0; o < nops; o++) {
            memcpy(A1.region, s.img, rsize);
            model_from(s.m);
            abandon = false; foreign_mismatch = false;
            vf_case_begin(caseno, "exhaustive capacity=%d variant=%d state#%zu depth=%d model=[%d%d%d%d%d] op#%d", cap, variant, qh - 1, s.depth, s.m[0], s.m[1], s.m[2], s.m[3], s.m[4], o);
            unsigned char nm[8]; memcpy(nm, s.m, 8);
            if (o < NU * 3) { int id = o / 3, cls = 1 + o % 3; classify_put(id); op_put(id, VLEN[cls], cls, o % 3 == 0 ? 1 : 0); }
            else if (o < NU * 4) op_remove(o - NU * 3, o & 1);
            else op_remove_by_idx(o - NU * 4);
            transitions++; vf_count("evaluations", 1);
            after_op(true);
            if (P == 11) vf_san_poll();
            if (abandon) { if (vf_nviol >= 30) goto done; continue; }
            /* model state after the operation, re-derived from the model itself */
            for (int id = 0; id < NU; id++) { nm[id] = 0; if (MP[id]) for (int c = 1; c <= 3; c++) if (MVL[id] == VLEN[c]) nm[id] = (unsigned char)c; }
            uint64_t nh = image_norm_hash(A1.region);
            if (sh_add(nh)) {
                vf_distinct("distinct", nh ^ USALT);
                if ((long)qn >= statecap) { capped = true; continue; }
                if (qn == qcap) { qcap *= 2; Q = vf_xrealloc(Q, sizeof(st_t) * qcap); }
                Q[qn].img = vf_xdup(A1.region, rsize); memcpy(Q[qn].m, nm, 8); Q[qn].depth = s.depth + 1; qn++;
                vf_max("max_bfs_depth", s.depth + 1);
            }
        }
    }
done:
    vf_count("exhaustive_transitions", transitions);
    vf_count("exhaustive_images", (long)SHN);
    vf_count(capped ? "exhaustive_configs_capped" : "exhaustive_configs_completed", 1);
    for (size_t i = 0; i < qn; i++) hm_free(Q[i].img);
    hm_free(Q); hm_free(SH); SH = NULL;
    table_free(); universe_free();
}

/* ---- phase B: random histories -------------------------------------------- */
static size_t pick_vlen(void) {
    static const size_t EDGE[] = {1, 2, 31, 32, 33, 97, 98, 99, 163, 164, 165, 229, 230, 231, 500, 1000};
    uint32_t c = rng_below(&R, 10);
    if (c < 4) return EDGE[rng_below(&R, 16)];
    if (c < 8) return 1 + rng_below(&R, 70);
    return 1 + rng_below(&R, 400);
}
static int pick_key(void) {
    if (MN > 0 && rng_chance(&R, 4, 10)) { int k = (int)rng_below(&R, (uint32_t)MN); for (int i = 0; i < NU; i++) if (MP[i] && k-- == 0) return i; }
    return (int)rng_below(&R, (uint32_t)NU);
}
static void walk_removing(void) {
    /* documented idiom: remove by index during a walk (here: every key with odd id) */
    int idx = 0; qhasharr_obj_t o; int guard = 0;
    vf_log("walk removing odd keys by index");
    while (T->getnext(T, &o, &idx)) {
        qhasharr_slot_t *s = &SLOTS(A1.region)[idx - 1];
        int id = slot_key_id(s);
        bool bad = id < 0 || !MP[id] || o.datasize != MVL[id] || memcmp(o.data, MV[id], MVL[id]);
        free(o.name); free(o.data);
        if (bad) { judge("C06", "walk-remove-foreign", "walk returned an entry that is not stored"); return; }
        if (id & 1) { idx--; if (!T->remove_by_idx(T, idx)) { judge("C06", "walk-remove-failed", "remove_by_idx(%d) during walk failed", idx); return; } m_remove(id); vf_count("removed_during_walk", 1); }
        if (++guard > 4 * CAP + 8) { judge("C06", "walk-remove-endless", "walk with removal does not end"); return; }
    }
    for (int i = 1; i < NU; i += 2) if (MP[i]) { judge("C06", "walk-remove-missed", "key %d survived a walk that removes every odd key", i); return; }
    vf_count("walks_with_removal", 1);
}
static void history(long caseno) {
    rng_seed(&R, VF.seed, (uint64_t)caseno);
    static const int CAPS[] = {2, 3, 5, 8, 16, 64, 257};
    int cap = CAPS[caseno % 7];
    int nk = 12 + (int)rng_below(&R, 49);
    universe_alloc(nk + 4);
    while (NU < nk) {
        unsigned char b[70000]; size_t l; uint32_t c = rng_below(&R, 20);
        if (c < 8) { l = (size_t)snprintf((char *)b, 64, "key%u", rng_below(&R, 100000)) + 1; }
        else if (c < 12) { l = 1 + rng_below(&R, 16); for (size_t i = 0; i < l; i++) b[i] = (unsigned char)rng_below(&R, 256); }
        else if (c < 16 && NU > 0) { ukey_t *o = &UK[rng_below(&R, (uint32_t)NU)];     /* twin differing only beyond byte 16 */
            l = o->kl > 17 ? o->kl : 24; memset(b, 'q', l); memcpy(b, o->k, o->kl < 17 ? o->kl : 17); b[l - 2] = (unsigned char)('A' + rng_below(&R, 26)); b[l - 1] = 0; }
        else if (c < 19) { l = 17 + rng_below(&R, 60); for (size_t i = 0; i < l; i++) b[i] = (unsigned char)('a' + rng_below(&R, 4)); b[l - 1] = 0; }
        else { l = rng_chance(&R, 1, 2) ? 65535 : 1000 + rng_below(&R, 60000); for (size_t i = 0; i < l; i++) b[i] = (unsigned char)(i * 7 + NU); b[l - 1] = 0; }
        uk_add(b, l);
    }
    int nops = VF.thorough ? 3000 : 1200;
    USALT = vf_hash(&caseno, sizeof caseno, VF_H0);
    vf_case_begin(caseno, "random history: capacity=%d keys=%d ops=%d", cap, NU, nops);
    table_new(cap, 4 * rng_below(&R, 8));
    int salt = 0;
    for (int op = 0; op < nops && !abandon; op++) {
        int phase = (op * 8 / nops) % 4;       /* fill, churn at full, drain, mixed */
        uint32_t c = rng_below(&R, 100);
        uint32_t pput = phase == 0 ? 75 : phase == 1 ? 60 : phase == 2 ? 15 : 45;
        bool mut = true;
        if (c < pput) { int id = phase == 1 && MN > 0 && rng_chance(&R, 1, 2) ? pick_key() : (int)rng_below(&R, (uint32_t)NU); classify_put(id); op_put(id, pick_vlen(), ++salt, (int)rng_below(&R, 3)); }
        else if (c < pput + (100 - pput) / 2) op_remove(pick_key(), (int)rng_below(&R, 2));
        else if (c < 92) op_remove_by_idx((int)rng_below(&R, (uint32_t)CAP + 3));
        else if (c < 95) walk_removing();
        else if (c < 96 && rng_chance(&R, 1, 4)) { vf_log("clear"); T->clear(T); m_clear(); vf_count("clear", 1); }
        else if (c < 98) { vf_log("invalid"); errno = 0; if (T->put_by_obj(T, NULL, 1, "x", 1) || errno != EINVAL) judge("C06", "einval", "put(NULL) accepted");
                           errno = 0; if (T->put_by_obj(T, "k", 2, "x", 0) || errno != EINVAL) judge("C06", "einval", "put(size 0) accepted");
                           errno = 0; if (T->remove_by_idx(T, -1) || errno != EINVAL) judge("C06", "einval", "remove_by_idx(-1) accepted"); vf_count("invalid_arg_calls", 3); mut = false; }
        else { if (P == 7 || P == 11) switch_over(); mut = false; }
        vf_count("evaluations", 1);
        after_op((op & 7) == 0);
        if (mut && !abandon && CAP <= 16) vf_distinct("distinct", image_norm_hash(A1.region) ^ USALT);
        if (P == 11 && (op & 15) == 0 && vf_san_poll()) break;
    }
    vf_max("max_used_slots", m_used());
    vf_count(abandon ? "histories_abandoned" : "histories_completed", 1);
    if (caseno < 7 && !abandon) vf_sample("history #%ld: capacity=%d keys=%d (longest %zu bytes) ops=%d final_keys=%d used=%ld", caseno, cap, NU, UK[NU - 1].kl, nops, MN, m_used());
    table_free();
    if (P == 11) vf_san_poll();
    universe_free();
}

/* "all hash-collision patterns", "any capacity": one home slot shared by 32768 keys in a table of 33000 slots (thorough tier, C06 only).
 * Every key must stay reachable and the counters exact after every put. */
static void long_chain(long caseno) {
    int cap = 33000; size_t ms = qhasharr_calculate_memsize(cap); void *mem = hm_alloc(ms);
    qhasharr_t *t = qhasharr(mem, ms); if (!t) { fprintf(stderr, "h_hasharr: long_chain: constructor failed\n"); exit(2); }
    vf_case_begin(caseno, "one collision chain of 32768 keys in a table of %d slots", cap);
    uint64_t first = 0, k = 0; int stored = 0; bool lost = false;
    vf_cpu_arm_prop("C06", "long_chain", 900000);
    while (stored < 32768 + 8 && !lost) { k++;
        if (ref_murmur3_32(&k, 8) % (uint32_t)cap != 7) continue;
        if (!t->put_by_obj(t, &k, 8, "v", 2)) { vf_viol("C06", "long-chain-put-refused", "put of the %d-th key of one home slot was refused although %d slots are free", stored + 1, cap - stored); break; }
        stored++; if (stored == 1) first = k;
        if (stored >= 32760 || (stored & 4095) == 0) { size_t sz = 0; void *v = t->get_by_obj(t, &first, 8, &sz); int us = 0, mx = 0; int n = t->size(t, &mx, &us);
            if (!v || n != stored || us != stored) { vf_log("after %d puts: get(first)=%p size()=%d used=%d", stored, v, n, us); lost = true;
                vf_viol("C06", "count-overflow:long-chain", "after the %d-th key of one home slot was stored, the first key of the chain is %s and size() reports %d keys / %d used slots", stored, v ? "found" : "no longer found", n, us); }
            free(v); }
    }
    vf_cpu_disarm();
    vf_count("evaluations", stored); vf_count("long_chain_keys", stored); vf_distinct("distinct", VF_H0 + 424242);
    t->free(t); hm_free(mem);
}

int main(int argc, char **argv) {
    vf_init(argc, argv, "h_hasharr");
    vf_errno_entry = 1; vf_op_budget_ms = VF.thorough ? 120000 : 10000;   /* stale errno on entry of every logged operation; a call that never returns is hang:operation */
    vf_errno_noise_every = 5;   /* every fifth case: successful allocations leave errno = ENOMEM behind (glibc does when brk fails) */
    P = atoi(VF.prop + 1);
    if (P != 6 && P != 7 && P != 11) { fprintf(stderr, "h_hasharr: unsupported property %s\n", VF.prop); return 2; }
    vf_ledger_enable(true);
    long ncases = vf_arg_long("cases", 280);
    int maxcap = (int)vf_arg_long("maxcap", 4);
    long statecap = vf_arg_long("statecap", 200000);
    if (vf_arg_long("exhaustive", 1) && (VF.only_case < 0 || VF.only_case >= 1000000000L)) phase_exhaustive(maxcap, statecap);
    for (long c = 0; c < ncases; c++) if (vf_mine(c)) history(c);
    if (P == 6 && vf_arg_long("longchain", 0) && vf_mine(900000000L)) long_chain(900000000L);
    return vf_finish() ? 1 : 0;
}
