/* vfc.c - common harness support (see vfc.h) */
#define _GNU_SOURCE
#include "vfc.h"
#include <stdlib.h>
#include <stdint.h>
#include <string.h>
#include <signal.h>
#include <unistd.h>
#include <fcntl.h>
#include <errno.h>
#include <sys/time.h>
#include <sys/stat.h>

vf_params_t VF;
long vf_cur_case = -1;
long vf_cur_op = 0;
int vf_nviol = 0;
volatile int vf_asan_hits = 0;
long vf_oom_k; bool vf_oom_all; long vf_oom_last_allocs, vf_oom_last_hits;

static int res_fd = -1;
static char case_desc[512];
static char *oplog;          /* text of the current case's operation log */
static size_t oplog_len, oplog_cap;
static int case_viols;
static int replay_seq;
static const char *cpu_what = "";
static const char *cpu_prop = NULL;
static void dump_counters(void);
static off_t san_seen;
static int san_seen_hits;
static char san_path[600];

#define MAX_VIOL_PER_PROC 40
#define MAX_OPLOG (4u << 20)

/* ---- memory -------------------------------------------------------------- */
void *vf_xalloc(size_t n) {
    void *p = __real_malloc(n ? n : 1);
    if (!p) { fprintf(stderr, "harness: out of memory\n"); _exit(2); }
    return p;
}
void *vf_xrealloc(void *p, size_t n) {
    void *q = __real_realloc(p, n ? n : 1);
    if (!q) { fprintf(stderr, "harness: out of memory\n"); _exit(2); }
    return q;
}
void *vf_xdup(const void *p, size_t n) {
    void *q = vf_xalloc(n);
    if (n) memcpy(q, p, n);
    return q;
}

/* ---- PRNG ---------------------------------------------------------------- */
static uint64_t splitmix(uint64_t *x) {
    uint64_t z = (*x += 0x9e3779b97f4a7c15ULL);
    z = (z ^ (z >> 30)) * 0xbf58476d1ce4e5b9ULL;
    z = (z ^ (z >> 27)) * 0x94d049bb133111ebULL;
    return z ^ (z >> 31);
}
void rng_seed(rng_t *r, uint64_t seed, uint64_t stream) {
    uint64_t x = seed * 0x2545F4914F6CDD1DULL + stream * 0x9E3779B97F4A7C15ULL + 0x1234567;
    for (int i = 0; i < 4; i++) r->s[i] = splitmix(&x);
}
static inline uint64_t rotl(uint64_t x, int k) { return (x << k) | (x >> (64 - k)); }
uint64_t rng_next(rng_t *r) {
    uint64_t *s = r->s;
    uint64_t result = rotl(s[1] * 5, 7) * 9, t = s[1] << 17;
    s[2] ^= s[0]; s[3] ^= s[1]; s[1] ^= s[2]; s[0] ^= s[3]; s[2] ^= t; s[3] = rotl(s[3], 45);
    return result;
}
uint64_t vf_hash(const void *p, size_t n, uint64_t h) {
    const unsigned char *b = (const unsigned char *)p;
    for (size_t i = 0; i < n; i++) { h ^= b[i]; h *= 1099511628211ULL; }
    /* separator so that ("ab","c") != ("a","bc") */
    h ^= 0xff; h *= 1099511628211ULL;
    return h;
}

/* ---- args ---------------------------------------------------------------- */
const char *vf_arg_str(const char *name, const char *dflt) {
    for (int i = 1; i + 1 < VF.argc; i++)
        if (VF.argv[i][0] == '-' && VF.argv[i][1] == '-' && !strcmp(VF.argv[i] + 2, name))
            return VF.argv[i + 1];
    return dflt;
}
long vf_arg_long(const char *name, long dflt) {
    const char *s = vf_arg_str(name, NULL);
    return s ? strtol(s, NULL, 0) : dflt;
}

static void res_write(const char *s, size_t n) {
    while (n > 0) {
        ssize_t w = write(res_fd, s, n);
        if (w <= 0) { if (errno == EINTR) continue; return; }
        s += w; n -= (size_t)w;
    }
}
static void res_printf(const char *fmt, ...) {
    char buf[2048];
    va_list ap; va_start(ap, fmt);
    int n = vsnprintf(buf, sizeof buf, fmt, ap);
    va_end(ap);
    if (n < 0) return;
    if ((size_t)n >= sizeof buf) { n = sizeof buf - 1; buf[n - 1] = '\n'; }
    res_write(buf, (size_t)n);
}

static void crash_handler(int sig);
static void vtalrm_handler(int sig);

void vf_init(int argc, char **argv, const char *harness) {
    memset(&VF, 0, sizeof VF);
    VF.argc = argc; VF.argv = argv; VF.harness = harness;
    VF.prop = vf_arg_str("prop", "C00");
    VF.tier = vf_arg_str("tier", "quick");
    VF.mode = vf_arg_str("mode", "");
    VF.thorough = !strcmp(VF.tier, "thorough");
    VF.seed = (uint64_t)strtoull(vf_arg_str("seed", "1"), NULL, 0);
    VF.shard = (int)vf_arg_long("shard", 0);
    VF.nshards = (int)vf_arg_long("nshards", 1);
    VF.only_case = vf_arg_long("only-case", -1);
    VF.start_case = vf_arg_long("start-case", 0);
    VF.out = vf_arg_str("out", "/dev/null");
    VF.replay_dir = vf_arg_str("replay-dir", "/tmp");
    VF.verbose = vf_arg_long("verbose", 0) != 0;
    if (!strcmp(VF.out, "/dev/null")) res_fd = open("/dev/null", O_WRONLY);
    else {
        char p[600]; snprintf(p, sizeof p, "%s.res", VF.out);
        res_fd = open(p, O_WRONLY | O_CREAT | O_APPEND, 0644);
    }
    if (res_fd < 0) { perror("harness: result file"); _exit(2); }
    const char *sl = getenv("VF_SANLOG");
    if (sl) snprintf(san_path, sizeof san_path, "%s.%d", sl, (int)getpid());
    oplog_cap = 1 << 16; oplog = (char *)vf_xalloc(oplog_cap); oplog[0] = 0;

    struct sigaction sa; memset(&sa, 0, sizeof sa);
    sa.sa_handler = vtalrm_handler; sigaction(SIGVTALRM, &sa, NULL);
    /* sanitizer builds run with handle_segv=0 etc., so fatal signals always come here and
     * are recorded with the current case (the driver restarts the shard after that case) */
    /* own signal stack: a stack overflow (unbounded recursion in the code under test) must still be recorded as a crash of the current case */
    { static char altstack[1 << 16]; stack_t ss; memset(&ss, 0, sizeof ss); ss.ss_sp = altstack; ss.ss_size = sizeof altstack; sigaltstack(&ss, NULL); }
    sa.sa_handler = crash_handler; sa.sa_flags = SA_RESETHAND | SA_ONSTACK;
    sigaction(SIGSEGV, &sa, NULL); sigaction(SIGBUS, &sa, NULL);
    sigaction(SIGFPE, &sa, NULL); sigaction(SIGILL, &sa, NULL);
    sigaction(SIGABRT, &sa, NULL);
}

bool vf_mine(long c) {
    if (VF.only_case >= 0) return c == VF.only_case;
    if (c < VF.start_case) return false;
    return VF.nshards <= 1 || (c % VF.nshards) == VF.shard;
}

/* ---- counters ------------------------------------------------------------ */
#define MAXC 512
static struct { const char *name; long v; bool is_max; } ctr[MAXC];
static int nctr;
static int ctr_find(const char *name, bool is_max) {
    for (int i = 0; i < nctr; i++)
        if (ctr[i].name == name || !strcmp(ctr[i].name, name)) return i;
    if (nctr >= MAXC) { fprintf(stderr, "harness: too many counters\n"); _exit(2); }
    ctr[nctr].name = (const char *)vf_xdup(name, strlen(name) + 1);
    ctr[nctr].v = 0; ctr[nctr].is_max = is_max;
    return nctr++;
}
void vf_count(const char *name, long d) { ctr[ctr_find(name, false)].v += d; }
void vf_max(const char *name, long v) {
    int i = ctr_find(name, true);
    if (v > ctr[i].v) ctr[i].v = v;
}

/* ---- distinct sets ------------------------------------------------------- */
#define MAXSETS 16
static struct dset { const char *name; uint64_t *tab; size_t cap, n; } dsets[MAXSETS];
static int ndsets;
static void dset_add(struct dset *d, uint64_t h) {
    if (h == 0) h = 1;
    if ((d->n + 1) * 10 >= d->cap * 7) {
        size_t ocap = d->cap; uint64_t *ot = d->tab;
        d->cap = ocap ? ocap * 2 : 1024;
        d->tab = (uint64_t *)__real_calloc(d->cap, sizeof(uint64_t));
        if (!d->tab) _exit(2);
        d->n = 0;
        for (size_t i = 0; i < ocap; i++) if (ot[i]) dset_add(d, ot[i]);
        hm_free(ot);
    }
    size_t i = (size_t)(h * 0x9E3779B97F4A7C15ULL >> 20) & (d->cap - 1);
    while (d->tab[i]) { if (d->tab[i] == h) return; i = (i + 1) & (d->cap - 1); }
    d->tab[i] = h; d->n++;
}
void vf_distinct(const char *set, uint64_t h) {
    int i;
    for (i = 0; i < ndsets; i++) if (dsets[i].name == set || !strcmp(dsets[i].name, set)) break;
    if (i == ndsets) {
        if (ndsets >= MAXSETS) _exit(2);
        dsets[i].name = (const char *)vf_xdup(set, strlen(set) + 1); ndsets++;
    }
    dset_add(&dsets[i], h);
}

/* ---- named sets ---------------------------------------------------------- */
static uint64_t *nseen; static size_t nseen_n, nseen_cap;
void vf_name(const char *set, const char *name) {
    uint64_t h = vf_hash(name, strlen(name), vf_hash(set, strlen(set), VF_H0));
    for (size_t i = 0; i < nseen_n; i++) if (nseen[i] == h) return;
    if (nseen_n == nseen_cap) { nseen_cap = nseen_cap ? nseen_cap * 2 : 256; nseen = (uint64_t *)vf_xrealloc(nseen, nseen_cap * 8); }
    nseen[nseen_n++] = h;
    res_printf("N\t%s\t%s\n", set, name);
}

/* ---- samples ------------------------------------------------------------- */
static int nsamples;
void vf_sample(const char *fmt, ...) {
    if (nsamples >= 6) return;
    nsamples++;
    char buf[1500];
    va_list ap; va_start(ap, fmt); vsnprintf(buf, sizeof buf, fmt, ap); va_end(ap);
    for (char *p = buf; *p; p++) if (*p == '\n' || *p == '\t') *p = ' ';
    res_printf("S\t%s\n", buf);
}

/* ---- op log -------------------------------------------------------------- */
static void oplog_append(const char *s, size_t n) {
    if (oplog_len + n + 2 > oplog_cap) {
        if (oplog_cap >= MAX_OPLOG) {   /* keep the tail */
            size_t keep = oplog_cap / 2;
            memmove(oplog, oplog + oplog_len - keep, keep);
            oplog_len = keep;
            memcpy(oplog, "...\n", 4);
        } else {
            oplog_cap *= 2; oplog = (char *)vf_xrealloc(oplog, oplog_cap);
        }
        if (oplog_len + n + 2 > oplog_cap) return;
    }
    memcpy(oplog + oplog_len, s, n); oplog_len += n;
    oplog[oplog_len++] = '\n'; oplog[oplog_len] = 0;
}
int vf_errno_noise_every;   /* >0: every n-th case runs with errno noise (see wrap.c) */
extern long vf_entry_errno_nonzero;
void vf_case_begin(long caseno, const char *fmt, ...) {
    vf_cur_case = caseno; vf_cur_op = 0; case_viols = 0;
    vf_errno_noise = vf_errno_noise_every > 0 && (caseno % vf_errno_noise_every) == vf_errno_noise_every / 2;
    if (vf_errno_noise) vf_count("cases_where_successful_allocations_leave_errno_enomem", 1);
    oplog_len = 0; oplog[0] = 0;
    va_list ap; va_start(ap, fmt); vsnprintf(case_desc, sizeof case_desc, fmt, ap); va_end(ap);
    if (VF.verbose) fprintf(stderr, "== case %ld: %s\n", caseno, case_desc);
}
void vf_log(const char *fmt, ...) {
    char buf[1024];
    va_list ap; va_start(ap, fmt);
    int n = vsnprintf(buf, sizeof buf, fmt, ap);
    va_end(ap);
    if (n < 0) return;
    if ((size_t)n >= sizeof buf) n = sizeof buf - 1;
    oplog_append(buf, (size_t)n);
    vf_cur_op++;
    if (VF.verbose) fprintf(stderr, "   %s\n", buf);
    if (vf_op_budget_ms > 0) vf_cpu_arm("operation", vf_op_budget_ms);
    if (vf_errno_entry) errno = vf_entry_errno();
}
/* ---- errno on entry / per-operation CPU budget ------------------------------
 * A library call must not depend on the errno value it is entered with (stale ENOENT of a lookup miss, EINTR after a signal, ENOMEM of an
 * earlier refused call, ...).  Harnesses that opt in get a value chosen from (case, operation number) - so a replay sees the same one - left
 * in errno after every vf_log(), i.e. right before the logged operation is executed; harnesses without an operation log call vf_entry_errno()
 * themselves.  vf_op_budget_ms arms the CPU watchdog for every logged operation: a call that never returns becomes `hang:operation`
 * (a violation with a replay) instead of a wall-clock timeout of the whole shard (inconclusive). */
int vf_errno_entry = 0, vf_op_budget_ms = 0;
int vf_entry_errno_for(uint64_t h) {
    static const int V[] = {0, ENOENT, EINTR, ENOMEM, 0, ERANGE, EINVAL, EAGAIN, ENOBUFS, ENOTTY, 0, EEXIST, EIO, ENOMEM, ENOENT, EINTR};
    h ^= h >> 29; h *= 0xBF58476D1CE4E5B9ULL; h ^= h >> 32;
    int e = V[h % (sizeof V / sizeof V[0])];
    if (e) vf_entry_errno_nonzero++;
    return e;
}
int vf_entry_errno(void) {
    return vf_entry_errno_for((uint64_t)vf_cur_case * 0x9E3779B97F4A7C15ULL + (uint64_t)vf_cur_op * 0xC2B2AE3D27D4EB4FULL + VF.seed);
}
long vf_entry_errno_nonzero = 0;
const char *vf_hex(const void *p, size_t n) {
    static char bufs[8][160]; static int k;
    char *b = bufs[k = (k + 1) & 7];
    const unsigned char *s = (const unsigned char *)p;
    size_t o = 0;
    if (!p) { strcpy(b, "NULL"); return b; }
    bool printable = n > 0;
    for (size_t i = 0; i < n; i++) if (s[i] < 33 || s[i] > 126 || s[i] == '"' || s[i] == '\\') printable = false;
    if (printable && n < 60) { b[0] = '\''; memcpy(b + 1, s, n); b[n + 1] = '\''; b[n + 2] = 0; return b; }
    o += (size_t)snprintf(b + o, 160 - o, "x[%zu]", n);
    for (size_t i = 0; i < n && o + 8 < 160; i++) {
        if (i >= 40) { o += (size_t)snprintf(b + o, 160 - o, ".."); break; }
        o += (size_t)snprintf(b + o, 160 - o, "%02x", s[i]);
    }
    return b;
}

/* ---- violations ---------------------------------------------------------- */
/* replay records are written with open()/write() from a static buffer only (no stdio, no malloc):
 * the writer also runs inside fatal-signal handlers, possibly with the heap lock held */
static char wbuf[1 << 16]; static size_t wlen; static int wfd = -1;
static void w_flush(void) { size_t o = 0; while (o < wlen) { ssize_t w = write(wfd, wbuf + o, wlen - o); if (w <= 0) { if (errno == EINTR) continue; break; } o += (size_t)w; } wlen = 0; }
static void w_raw(const char *s, size_t n) { for (size_t i = 0; i < n; i++) { if (wlen == sizeof wbuf) w_flush(); wbuf[wlen++] = s[i]; } }
static void w_str(const char *s) { w_raw(s, strlen(s)); }
static void w_num(long long v) { char b[32]; int n = 0; bool neg = v < 0; unsigned long long u = neg ? (unsigned long long)(-(v + 1)) + 1 : (unsigned long long)v;
    do { b[n++] = (char)('0' + u % 10); u /= 10; } while (u); if (neg) b[n++] = '-'; while (n) { char c = b[--n]; w_raw(&c, 1); } }
static void w_json(const char *s, size_t n) {
    static const char hx[] = "0123456789abcdef";
    w_raw("\"", 1);
    for (size_t i = 0; i < n; i++) {
        unsigned char c = (unsigned char)s[i];
        if (c == '"' || c == '\\') { char e[2] = {'\\', (char)c}; w_raw(e, 2); }
        else if (c == '\n') w_raw("\\n", 2);
        else if (c < 0x20 || c >= 0x7f) { char e[6] = {'\\', 'u', '0', '0', hx[c >> 4], hx[c & 15]}; w_raw(e, 6); }
        else w_raw((const char *)&c, 1);
    }
    w_raw("\"", 1);
}
static void write_replay(const char *prop, const char *key, const char *msg, char *path, size_t pathsz) {
    snprintf(path, pathsz, "%s/%s-%s-s%llu-c%ld-%d.json", VF.replay_dir, prop, VF.harness,
             (unsigned long long)VF.seed, vf_cur_case, replay_seq++);
    wfd = open(path, O_WRONLY | O_CREAT | O_TRUNC, 0644);
    if (wfd < 0) { snprintf(path, pathsz, "-"); return; }
    wlen = 0;
    w_str("{\"harness\":"); w_json(VF.harness, strlen(VF.harness));
    w_str(",\n \"prop\":"); w_json(prop, strlen(prop));
    w_str(",\n \"key\":"); w_json(key, strlen(key));
    w_str(",\n \"msg\":"); w_json(msg, strlen(msg));
    w_str(",\n \"seed\":"); w_num((long long)VF.seed); w_str(",\n \"case\":"); w_num(vf_cur_case); w_str(",\n \"op\":"); w_num(vf_cur_op);
    w_str(",\n \"case_desc\":"); w_json(case_desc, strlen(case_desc));
    w_str(",\n \"argv\":[");
    for (int i = 1; i < VF.argc; i++) { if (i > 1) w_str(","); w_json(VF.argv[i], strlen(VF.argv[i])); }
    w_str("],\n \"oplog\":[");
    const char *p = oplog; bool first = true;
    while (p && *p) {
        const char *e = strchr(p, '\n'); size_t n = e ? (size_t)(e - p) : strlen(p);
        if (!first) w_str(",\n  "); first = false;
        w_json(p, n);
        p = e ? e + 1 : NULL;
    }
    w_str("]}\n");
    w_flush();
    close(wfd); wfd = -1;
}
bool vf_case_failed(void) { return case_viols > 0; }
#include <pthread.h>
static void *lock_probe_main(void *m) { int r = pthread_mutex_trylock((pthread_mutex_t *)m); if (r == 0) pthread_mutex_unlock((pthread_mutex_t *)m); return (void *)(intptr_t)r; }
bool vf_lock_probe(void *m) {
    if (!m) return true;
    pthread_t t; void *r = NULL; if (pthread_create(&t, NULL, lock_probe_main, m)) return true; pthread_join(t, &r);
    vf_count("lock_probes_from_a_second_thread", 1);
    return (intptr_t)r == 0;
}

static uint64_t vkeys[256]; static int nvkeys;
static bool viol_v(const char *prop, const char *key, const char *msg) {
    char path[700];
    if (!prop) prop = VF.prop;
    case_viols++;
    /* one replay per distinct (property, key) and process; repeats are only counted */
    uint64_t kh = vf_hash(key, strlen(key), vf_hash(prop, strlen(prop), VF_H0));
    bool seen = false;
    for (int i = 0; i < nvkeys; i++) if (vkeys[i] == kh) seen = true;
    if (seen) {
        static long repeats;
        if (++repeats <= 400) res_printf("V\t%s\t%s\t-\tcase=%ld op=%ld (repeat)\n", prop, key, vf_cur_case, vf_cur_op);
        else if (repeats >= 5000) {          /* the verdict is settled: do not grind through the rest of the workload */
            res_printf("C\tstopped_early_after_many_repeated_violations\t1\n");
            _exit(vf_finish());
        }
        return true;
    }
    if (nvkeys < 256) vkeys[nvkeys++] = kh;
    vf_nviol++;
    write_replay(prop, key, msg, path, sizeof path);
    char m[900]; snprintf(m, sizeof m, "%s", msg);
    for (char *p = m; *p; p++) if (*p == '\n' || *p == '\t') *p = ' ';
    res_printf("V\t%s\t%s\t%s\tcase=%ld op=%ld %s\n", prop, key, path, vf_cur_case, vf_cur_op, m);
    if (VF.verbose) fprintf(stderr, "VIOL %s %s case=%ld op=%ld %s\n", prop, key, vf_cur_case, vf_cur_op, m);
    if (vf_nviol >= MAX_VIOL_PER_PROC) {
        res_printf("C\tviolation_cap_reached\t1\n");
        _exit(vf_finish());
    }
    return true;
}
bool vf_viol(const char *prop, const char *key, const char *fmt, ...) {
    char msg[900];
    va_list ap; va_start(ap, fmt); vsnprintf(msg, sizeof msg, fmt, ap); va_end(ap);
    return viol_v(prop, key, msg);
}

/* ---- crash / hang -------------------------------------------------------- */
static void crash_handler(int sig) {
    char key[160]; snprintf(key, sizeof key, "crash:sig%d%s%s", sig, cpu_what[0] ? ":" : "", cpu_what);
    char path[700];
    const char *prop = cpu_prop ? cpu_prop : VF.prop;
    write_replay(prop, key, "process received fatal signal", path, sizeof path);
    res_printf("V\t%s\t%s\t%s\tcase=%ld op=%ld fatal signal %d\n", prop, key, path, vf_cur_case, vf_cur_op, sig);
    dump_counters();
    res_printf("CRASH\t%ld\n", vf_cur_case);
    _exit(42);
}
static void vtalrm_handler(int sig) {
    (void)sig;
    char key[128]; snprintf(key, sizeof key, "hang:%s", cpu_what);
    char path[700];
    const char *prop = cpu_prop ? cpu_prop : VF.prop;
    write_replay(prop, key, "CPU budget exceeded (non-termination)", path, sizeof path);
    res_printf("V\t%s\t%s\t%s\tcase=%ld op=%ld CPU budget exceeded in %s\n", prop, key, path, vf_cur_case, vf_cur_op, cpu_what);
    dump_counters();
    res_printf("HANG\t%ld\n", vf_cur_case);
    _exit(41);
}
/* give up on the current case (state can not be cleaned up): the driver restarts the shard after it */
void vf_abort_case(void) {
    dump_counters();
    res_printf("CRASH\t%ld\n", vf_cur_case);
    _exit(42);
}
/* generous wall-clock watchdog for multi-threaded cases (a deadlock burns no CPU): its firing is
 * reported as a stall (inconclusive), never as a violation */
static void alrm_handler(int sig) {
    (void)sig;
    char path[700];
    write_replay(VF.prop, "stall:wall-clock", "case made no progress within the wall-clock allowance", path, sizeof path);
    res_printf("V\t%s\tstall:wall-clock\t%s\tcase=%ld op=%ld no progress within the wall-clock allowance\n", VF.prop, path, vf_cur_case, vf_cur_op);
    dump_counters();
    res_printf("HANG\t%ld\n", vf_cur_case);
    _exit(41);
}
void vf_wall_arm(int seconds) {
    struct sigaction sa; memset(&sa, 0, sizeof sa); sa.sa_handler = alrm_handler; sigaction(SIGALRM, &sa, NULL);
    alarm((unsigned)seconds);
}
void vf_wall_disarm(void) { alarm(0); }
void vf_cpu_arm_prop(const char *prop, const char *what, int millis) { vf_cpu_arm(what, millis); cpu_prop = prop; }
void vf_cpu_arm(const char *what, int millis) {
    cpu_what = what; cpu_prop = NULL;
    struct itimerval it; memset(&it, 0, sizeof it);
    it.it_value.tv_sec = millis / 1000; it.it_value.tv_usec = (millis % 1000) * 1000;
    setitimer(ITIMER_VIRTUAL, &it, NULL);
}
void vf_cpu_disarm(void) {
    struct itimerval it; memset(&it, 0, sizeof it);
    setitimer(ITIMER_VIRTUAL, &it, NULL);
    cpu_what = ""; cpu_prop = NULL;
}

/* ---- sanitizer attribution ---------------------------------------------- */
void __asan_on_error(void);
void __asan_on_error(void) { vf_asan_hits++; }
void __ubsan_on_report(void);
void __ubsan_on_report(void) { vf_asan_hits++; }   /* gcc prints UBSan reports to stderr (captured per shard) */

bool vf_san_poll(void) {
    bool hit = false;
    if (vf_asan_hits != san_seen_hits) { san_seen_hits = vf_asan_hits; hit = true; }
    if (san_path[0]) {
        struct stat st;
        if (stat(san_path, &st) == 0 && st.st_size != san_seen) {
            /* the allocator's "failed to allocate N bytes" warnings (allocator_may_return_null=1: the call simply gets NULL) are not reports */
            bool only_alloc_warnings = false;
            if (st.st_size > san_seen && st.st_size - san_seen < 65536) {
                int fd = open(san_path, O_RDONLY); size_t n = (size_t)(st.st_size - san_seen); char *b = fd >= 0 ? hm_alloc(n + 1) : NULL;
                if (b && pread(fd, b, n, san_seen) == (ssize_t)n) { b[n] = 0; only_alloc_warnings = true;
                    for (char *l = b; *l; ) { char *e = strchr(l, '\n'); size_t ll = e ? (size_t)(e - l) : strlen(l); if (ll && !memmem(l, ll, "failed to allocate", 18)) { only_alloc_warnings = false; break; } l += ll + (e ? 1 : 0); } }
                if (b) hm_free(b);
                if (fd >= 0) close(fd);
            }
            san_seen = st.st_size; if (!only_alloc_warnings) hit = true; }
    }
    if (hit) {
        vf_count("sanitizer_report_cases", 1);
        if (case_viols == 0 || VF.verbose) viol_v(NULL, "san", "sanitizer report during this case (see sanitizer log)");
    }
    return hit;
}

/* ---- finish -------------------------------------------------------------- */
static void dump_counters(void) {
    for (int i = 0; i < nctr; i++)
        res_printf("%s\t%s\t%ld\n", ctr[i].is_max ? "M" : "C", ctr[i].name, ctr[i].v);
    nctr = 0;
    /* distinct-hash sets (append; the driver unions them), written with open/write only */
    if (strcmp(VF.out, "/dev/null")) for (int i = 0; i < ndsets; i++) {
        char p[700]; snprintf(p, sizeof p, "%s.dist.%s", VF.out, dsets[i].name);
        int fd = open(p, O_WRONLY | O_CREAT | O_APPEND, 0644);
        if (fd < 0) continue;
        uint64_t buf[512]; size_t nb = 0;
        for (size_t k = 0; k < dsets[i].cap; k++) if (dsets[i].tab[k]) { buf[nb++] = dsets[i].tab[k]; if (nb == 512) { if (write(fd, buf, nb * 8) < 0) break; nb = 0; } }
        if (nb && write(fd, buf, nb * 8) < 0) { /* ignore */ }
        close(fd);
        memset(dsets[i].tab, 0, dsets[i].cap * 8); dsets[i].n = 0;
    }
}
static int real_viols;
int vf_finish(void) {
    if (vf_op_budget_ms > 0) vf_cpu_disarm();
    if (vf_entry_errno_nonzero) { vf_count("operations_entered_with_nonzero_errno", vf_entry_errno_nonzero); vf_entry_errno_nonzero = 0; }
    dump_counters();
    res_printf("DONE\t%d\n", vf_nviol);
    return vf_nviol ? 1 : 0;
}
