/* h_parse.c - C17: the in-place decoders (URL, Base64, hex), the query-string parser, the INI-style
 * parser (string and file form, with @INCLUDE) and the Apache-style parser on ARBITRARY input:
 * they must terminate, stay inside the input buffer and their own allocations, and deliver a result
 * or an error; in-place decoders never produce more bytes than the input had.
 *
 *  oracles : ASan/UBSan (asan build) / valgrind memcheck (vg build) on exactly-sized heap inputs;
 *            per-call CPU budget (ITIMER_VIRTUAL), allocation-count and live-byte budgets; length predicate.
 *  inputs  : (a) every string up to length L over the significant bytes of each format,
 *            (b) documents from the C20 generators, mutated (truncate, duplicate, delete, flip, unbalance
 *                quotes/brackets, trailing backslash, over-long lines, self- and mutually-referential ${..}).
 *  A hang of the INI parser is keyed "expansion-cycle" when an independent port of the documented
 *  rewriting semantics (with a round/size limit) does not reach a fixpoint on that input either.
 */
#define _GNU_SOURCE
#include <stdlib.h>
#include <string.h>
#include <errno.h>
#include <unistd.h>
#include <fcntl.h>
#include <sys/mman.h>
#include <dirent.h>
#include "qlibc.h"
#include "qlibcext.h"
#include "vfc.h"

static rng_t R;
extern volatile long vf_popen_calls;
static int MEMFD = -1; static char MEMPATH[64];
static char SCRATCH[300];

enum { F_URL, F_B64, F_HEX, F_QUERY, F_INI_STR, F_INI_FILE, F_APACHE, NFUNC };
static const char *FNAME[NFUNC] = {"qurl_decode", "qbase64_decode", "qhex_decode", "qparse_queries", "qconfig_parse_str", "qconfig_parse_file", "qaconf_parse"};

/* ---- budgets ------------------------------------------------------------------------------------- */
void vf_budget_abort(int which);     /* called by the allocator interposer when a budget trips */
static char BUDGET_WHAT[160];
void vf_budget_abort(int which) {
    vf_alloc_budget = 0; vf_bytes_budget = 0;
    char key[200]; snprintf(key, sizeof key, "hang:%s:%s", BUDGET_WHAT, which == 1 ? "allocation-count-budget" : "live-bytes-budget");
    vf_viol("C17", key, "the call exceeded its %s (non-termination / unbounded growth)", which == 1 ? "allocation-count budget" : "live-bytes budget");
    vf_abort_case();
}
static void arm(const char *what, size_t inlen) {
    snprintf(BUDGET_WHAT, sizeof BUDGET_WHAT, "%s", what);
    /* 2 s of CPU, plus a quadratic allowance for very long inputs: the query parser shifts the rest of the string once per pair (25 s for a 1 MB string of
     * short pairs at -O0) - slow, but it terminates; 200 ps x n^2 stays a factor 8 above that and is nothing for inputs below 100 KB */
    { size_t k = strcmp(what, "qparse_queries") ? 0 : inlen / 1000; vf_cpu_arm(BUDGET_WHAT, 2000 + (int)(k * k / 5 > 600000 ? 600000 : k * k / 5)); }   /* the query parser only: the INI budgets were calibrated on their own */
    vf_alloc_budget = vf_alloc_calls + (strncmp(what, "qconfig", 7) ? 20000 : 4000 + (long)inlen / 4);
    /* far above anything a terminating call can need: the INI parser sizes every replacement buffer for the worst case, (|value| / |token|) * |replacement|, i.e. quadratic in the input
     * (an 18 KB value referenced through a 6-byte ${k} asked for 108 MB in one malloc - wasteful, but it terminates; soak seed 3) */
    vf_bytes_budget = vf_ledger_live_bytes() + (long)(64 * inlen) + (64L << 20) + (long)(inlen * inlen);
    /* every call is entered with a stale errno value (EINTR after a signal, ENOENT of a lookup miss, ...) chosen by (case, call number within the case) */
    static long last_case = -1; static unsigned nth; if (last_case != vf_cur_case) { last_case = vf_cur_case; nth = 0; }
    errno = vf_entry_errno_for((uint64_t)vf_cur_case * 0x9E3779B97F4A7C15ULL + (uint64_t)(nth++) * 0xC2B2AE3D27D4EB4FULL + VF.seed);
}
static void disarm(void) { vf_alloc_budget = 0; vf_bytes_budget = 0; vf_cpu_disarm(); }

#include "ini_ref.h"

/* ---- one evaluation --------------------------------------------------------------------------------- */
static char *no_cb(qaconf_cbdata_t *d, void *ud) { (void)ud; size_t t = 0; for (int i = 0; i < d->argc; i++) t += strlen(d->argv[i]); for (qaconf_cbdata_t *p = d->parent; p; p = p->parent) t += strlen(p->argv[0]); vf_count("apache_callbacks", t ? 1 : 1); return NULL; }
static qaconf_option_t DEFOPTS[] = {
    {"a", QAC_TAKEALL, no_cb, 2, QAC_SECTION_ALL}, {"a1", QAC_TAKE2 | QAC_A1_INT | QAC_A2_BOOL, no_cb, 0, QAC_SECTION_ALL}, {"aa", QAC_TAKE_STR, no_cb, 4, QAC_SECTION_ROOT},
    {"1", QAC_TAKEALL | QAC_AA_FLOAT, no_cb, 0, 2}, {"1a", QAC_TAKE_BOOL, NULL, 0, QAC_SECTION_ALL}, QAC_OPTION_END};
static qaconf_option_t *CUR_OPTS = DEFOPTS; static int CUR_FLAGS = 0; static bool CUR_DEFCB = true;

static void write_mem(const void *p, size_t n) {
    if (ftruncate(MEMFD, 0) != 0 || pwrite(MEMFD, p, n, 0) != (ssize_t)n) { fprintf(stderr, "h_parse: memfd write failed\n"); exit(2); }
}
static void evaluate(int fn, const unsigned char *in, size_t n, const char *path_override) {
    vf_count("evaluations", 1);
    { char c[64]; snprintf(c, sizeof c, "inputs:%s", FNAME[fn]); vf_count(c, 1); }
    { const char *dump = getenv("VF_DUMP_INPUT"); if (dump && VF.only_case >= 0) { int fd = open(dump, O_WRONLY | O_CREAT | O_TRUNC, 0600); if (fd >= 0) { if (write(fd, in, n) < 0) {} close(fd); } } }   /* replay aid */
    switch (fn) {
    case F_URL: case F_B64: case F_HEX: {
        char *buf = hm_alloc(n + 1); memcpy(buf, in, n); buf[n] = 0;          /* exactly-sized heap buffer */
        size_t inl = strlen(buf);
        arm(FNAME[fn], n);
        size_t r = fn == F_URL ? qurl_decode(buf) : fn == F_B64 ? qbase64_decode(buf) : qhex_decode(buf);
        disarm();
        if (r > inl) { char k[80]; snprintf(k, sizeof k, "length:%s", FNAME[fn]); vf_log("input %s", vf_hex(in, n)); vf_viol("C17", k, "%s returned length %zu for an input of %zu bytes", FNAME[fn], r, inl); }
        else if (buf[r] != 0) { char k[80]; snprintf(k, sizeof k, "terminator:%s", FNAME[fn]); vf_log("input %s", vf_hex(in, n)); vf_viol("C17", k, "%s: no NUL at the returned length %zu", FNAME[fn], r); }
        if (fn == F_URL && inl && buf != NULL) { if (in[inl - 1] == '%') vf_count("branch:url_escape_at_end", 1); }
        if (fn == F_HEX && (inl & 1)) vf_count("branch:hex_odd_length", 1);
        hm_free(buf); break; }
    case F_QUERY: {
        char *buf = hm_alloc(n + 1); memcpy(buf, in, n); buf[n] = 0;
        arm(FNAME[fn], n); int cnt = 0;
        qlisttbl_t *t = qparse_queries(NULL, buf, '=', '&', &cnt);
        if (t) { size_t tot = 0; for (qlisttbl_obj_t *o = t->first; o; o = o->next) tot += strlen(o->name) + o->size; (void)tot; t->free(t); vf_count("results_delivered", 1); } else vf_count("errors_reported", 1);
        disarm();
        /* the same text with other legal separator arguments: ';' lists, and '\0' = "no such separator" */
        static const char SEPS[4][2] = {{'=', ';'}, {'=', 0}, {0, '&'}, {':', ','}};
        for (int v = 0; v < 4; v++) { memcpy(buf, in, n); buf[n] = 0; arm(FNAME[fn], n);
            qlisttbl_t *t2 = qparse_queries(NULL, buf, SEPS[v][0], SEPS[v][1], NULL);
            if (t2) { size_t tot = 0; for (qlisttbl_obj_t *o = t2->first; o; o = o->next) tot += strlen(o->name) + o->size; (void)tot; t2->free(t2); }
            disarm(); vf_count("query_parses_with_other_separators", 1); }
        hm_free(buf); break; }
    case F_INI_STR: {
        char *buf = hm_alloc(n + 1); memcpy(buf, in, n); buf[n] = 0;
        bool div = strstr(buf, "${") && ini_diverges(buf, '=');
        if (div) vf_count("branch:ini_cyclic_reference", 1);
        char what[64]; snprintf(what, sizeof what, "%s%s", FNAME[fn], div ? ":expansion-cycle" : "");
        arm(what, n);
        qlisttbl_t *t = qconfig_parse_str(NULL, buf, '=');
        if (t) { size_t tot = 0; for (qlisttbl_obj_t *o = t->first; o; o = o->next) tot += strlen(o->name) + o->size; (void)tot; t->free(t); vf_count("results_delivered", 1); } else vf_count("errors_reported", 1);
        disarm();
        /* other separator arguments (texts without references only: the termination classifier above is for '=') */
        if (!strstr(buf, "${")) for (int v = 0; v < 2; v++) { memcpy(buf, in, n); buf[n] = 0; arm(FNAME[fn], n);
            qlisttbl_t *t2 = qconfig_parse_str(NULL, buf, v ? ':' : 0);
            if (t2) { size_t tot = 0; for (qlisttbl_obj_t *o = t2->first; o; o = o->next) tot += strlen(o->name) + o->size; (void)tot; t2->free(t2); }
            disarm(); vf_count("ini_parses_with_other_separators", 1); }
        hm_free(buf); break; }
    case F_INI_FILE: {
        const char *path = path_override;
        if (!path) { write_mem(in, n); path = MEMPATH; }
        /* classification on the main text (documents with @INCLUDE are classified on their own text) */
        char *txt = hm_alloc(n + 1); memcpy(txt, in, n); txt[n] = 0;
        if (strstr(txt, "@INCLUDE ")) vf_count("branch:ini_include", 1);
        char *sp = ref_splice(txt, path);                      /* what the parser will see after the include splice */
        bool div = sp && strstr(sp, "${") && ini_diverges(sp, '=');
        if (div) vf_count("branch:ini_cyclic_reference", 1);
        hm_free(sp); hm_free(txt);
        char what[64]; snprintf(what, sizeof what, "%s%s", FNAME[fn], div ? ":expansion-cycle" : "");
        arm(what, n + 4096);
        qlisttbl_t *t = qconfig_parse_file(NULL, path, '=');
        if (t) { t->free(t); vf_count("results_delivered", 1); } else vf_count("errors_reported", 1);
        disarm(); break; }
    case F_APACHE: {
        const char *path = path_override;
        if (!path) { write_mem(in, n); path = MEMPATH; }
        qaconf_t *c = qaconf(); if (!c) exit(2);
        c->addoptions(c, CUR_OPTS);
        if (CUR_DEFCB) c->setdefhandler(c, no_cb);
        arm(FNAME[fn], n + 4096);
        int r = c->parse(c, path, (uint8_t)CUR_FLAGS);
        disarm();
        if (r < 0) { const char *em = c->errmsg(c); vf_count("errors_reported", 1);
            if (em) { if (strstr(em, "Quotation")) vf_count("branch:apache_unclosed_quote", 1); if (strstr(em, "not closed")) vf_count("branch:apache_unclosed_section", 1); if (strstr(em, "Missing closing")) vf_count("branch:apache_missing_bracket", 1); } }
        else vf_count("results_delivered", 1);
        /* one parser object is reused after an error (reseterror + parse again + errmsg): every third rejected input */
        if (r < 0 && (vf_cur_case % 3) == 0) { c->reseterror(c); arm(FNAME[fn], n + 4096); int r2 = c->parse(c, path, (uint8_t)CUR_FLAGS); disarm(); const char *em2 = c->errmsg(c);
            if (r2 < 0 && em2) { size_t l = strlen(em2); (void)l; } vf_count("apache_reparses_after_reseterror", 1); }
        c->free(c); break; }
    }
    long live = 0; (void)live;
}

/* ---- (a) exhaustive short strings ------------------------------------------------------------------- */
static const unsigned char A_URL[] = {'%', '+', 'a', 'F', '0', 'g', ' ', 0x80};
static const unsigned char A_B64[] = {'A', '/', '=', '-', '\n', 'z', '+', 0xFF};
static const unsigned char A_HEX[] = {'0', 'a', 'F', 'g', ' ', 0x80};
static const unsigned char A_QRY[] = {'=', '&', '%', '+', 'a', '1', ' '};
static const unsigned char A_INI[] = {'a', '=', '[', ']', '$', '{', '}', '%', '.', '#', '\n', ' '};
static const unsigned char A_APA[] = {'a', '1', '<', '>', '/', '"', '\'', '\\', ' ', '\n', '#'};
static const struct { int fn; const unsigned char *al; int k; int dlen; } EX[] = {
    {F_URL, A_URL, 8, 0}, {F_B64, A_B64, 8, 0}, {F_HEX, A_HEX, 6, 1}, {F_QUERY, A_QRY, 7, 0}, {F_INI_STR, A_INI, 12, 0}, {F_INI_FILE, A_INI, 12, -1}, {F_APACHE, A_APA, 11, 0}};

static void exhaustive(int L) {
    for (int e = 0; e < 7; e++) {
        int maxlen = L + EX[e].dlen; long idx = 0; long base = (long)(e + 1) * 1000000000L;
        for (int len = 0; len <= maxlen; len++) {
            long total = 1; for (int i = 0; i < len; i++) total *= EX[e].k;
            for (long v = 0; v < total; v++, idx++) {
                if (!vf_mine(base + idx)) continue;
                unsigned char s[16]; long t = v; for (int i = len - 1; i >= 0; i--) { s[i] = EX[e].al[t % EX[e].k]; t /= EX[e].k; }
                vf_cur_case = base + idx; vf_cur_op = 0;
                vf_case_begin(base + idx, "exhaustive %s input %s", FNAME[EX[e].fn], vf_hex(s, (size_t)len));
                evaluate(EX[e].fn, s, (size_t)len, NULL);
                if ((idx & 63) == 0) vf_san_poll();
                vf_distinct("distinct", vf_hash(s, (size_t)len, VF_H0 + (uint64_t)e));
            }
        }
        vf_san_poll();
        if (vf_mine(base)) { char c[64]; snprintf(c, sizeof c, "exhaustive_maxlen:%s", FNAME[EX[e].fn]); vf_max(c, maxlen); }
    }
}

/* ---- (b) grammar-aware mutation ----------------------------------------------------------------------- */
static unsigned char *MB; static size_t MBN, MBCAP; static bool MUT_SELFINC, MUT_LONG;
static void mb_set(const void *p, size_t n) { if (n + 20000 > MBCAP) { MBCAP = n + 40000; MB = vf_xrealloc(MB, MBCAP); } memcpy(MB, p, n); MBN = n; }
static void mb_insert(size_t at, const void *p, size_t n) { if (MBN + n + 8 > MBCAP) { MBCAP = MBN + n + 20000; MB = vf_xrealloc(MB, MBCAP); } memmove(MB + at + n, MB + at, MBN - at); memcpy(MB + at, p, n); MBN += n; }
static const char *CUR_BN;      /* base name of the seed document being mutated: a file that exists next to the mutated copy */
static void mutate(int fn) {
    MUT_SELFINC = MUT_LONG = false;
    int nm = 1 + (int)rng_below(&R, 3);
    for (int m = 0; m < nm; m++) {
        size_t at = MBN ? rng_below(&R, (uint32_t)MBN + 1) : 0;
        switch (rng_below(&R, 17)) {
        case 0: MBN = at; break;                                                             /* truncate anywhere */
        case 1: if (MBN) { size_t a = rng_below(&R, (uint32_t)MBN), l = 1 + rng_below(&R, 20); if (a + l > MBN) l = MBN - a; unsigned char *cp = vf_xdup(MB + a, l); mb_insert(at > MBN ? MBN : at, cp, l); hm_free(cp); } break;   /* duplicate */
        case 2: if (MBN) { size_t a = rng_below(&R, (uint32_t)MBN), l = 1 + rng_below(&R, 10); if (a + l > MBN) l = MBN - a; memmove(MB + a, MB + a + l, MBN - a - l); MBN -= l; } break;   /* delete */
        case 3: if (MBN) MB[rng_below(&R, (uint32_t)MBN)] ^= (unsigned char)(1u << rng_below(&R, 8)); break;                                                                              /* flip a bit */
        case 4: { static const char *Q[] = {"\"", "'", "\\", "\\\"", "<", ">", "</", "[", "]", "${", "}", "%", "%4", "=", "&", "+", "\r", "\n", "#", "@INCLUDE "}; const char *q = Q[rng_below(&R, 20)]; mb_insert(at > MBN ? MBN : at, q, strlen(q)); break; }
        case 5: mb_insert(MBN, "\\", 1); break;                                             /* trailing backslash */
        case 6: { size_t l = (size_t[]){4095, 4096, 9000}[rng_below(&R, 3)]; char *x = hm_alloc(l); memset(x, "a \"'\\<"[rng_below(&R, 6)], l); mb_insert(at > MBN ? MBN : at, x, l); hm_free(x); break; }   /* over-long line */
        case 7: { const char *c = (const char *[]){"\nx=${x}\nx=${x}\n", "\np=${q}\nq=${p}\np=${q}\n", "\nv=${v}${v}\nv=${v}${v}\n", "\na=b\nn=${${a}}\n", "\nk=${k${k}}\nk=${k}\n", "\n[s]\nz=${s.z}\nz=${s.z}x\n", "\nw=${%HOME}${!id}${}\n", "\ny=1\ny=${y}${y}\ny=${y}${y}\n"}[rng_below(&R, 8)];
                  mb_insert(at > MBN ? MBN : at, c, strlen(c)); break; }                        /* self / mutually referential variables */
        case 8: if (MBN > 2) { size_t a = rng_below(&R, (uint32_t)MBN - 1); unsigned char t = MB[a]; MB[a] = MB[a + 1]; MB[a + 1] = t; } break;
        case 9: if (MBN) MB[rng_below(&R, (uint32_t)MBN)] = (unsigned char)rng_below(&R, 256); break;
        case 16: if (fn != F_APACHE && !MUT_SELFINC) {   /* not combined with self-inclusion: 128 copies of a multi-megabyte line are slow, not endless */ /* a long line that references a long value: the size of the expansion is a product of lengths (2^31 and 2^32 are within reach of a few MiB) */
                  size_t vl = (size_t[]){4096, 8192, 300}[rng_below(&R, 3)], ll = rng_chance(&R, 1, 8) ? (4u << 20) : rng_chance(&R, 1, 2) ? (1u << 20) : 70000;
                  char *x = hm_alloc(vl + ll + 64); size_t o = 0; memcpy(x, "\n[]\nlv=", 7); o = 7;   /* back to the root section first */ memset(x + o, 'v', vl); o += vl; memcpy(x + o, "\nlw=${lv}", 9); o += 9; memset(x + o, 'y', ll - 5); o += ll - 5; x[o++] = '\n';
                  mb_insert(MBN, x, o); hm_free(x); vf_count("long_reference_lines", 1); MUT_LONG = true; } break;
        case 10: if (MBN) MB[rng_below(&R, (uint32_t)MBN)] = 0; break;                         /* embedded NUL (file parsers) */
        case 11: { char inc[80]; snprintf(inc, sizeof inc, "\n@INCLUDE %s\n", (const char *[]){"/nonexistent/file", "", "                ", "missing.conf"}[rng_below(&R, 4)]); mb_insert(at > MBN ? MBN : at, inc, strlen(inc)); break; }
        case 12: { size_t l = 4090 + rng_below(&R, 12); char *x = hm_alloc(l + 16); memset(x, '/', l); memcpy(x, "\n@INCLUDE ", 10); x[l - 1] = '\n'; mb_insert(at > MBN ? MBN : at, x, l); hm_free(x); break; }   /* over-long include path */
        case 14: if (fn == F_APACHE) { /* very deep section nesting: N unclosed section tags (registered name of the seed document, or an unknown one for the default handler / IGNOREUNKNOWN) */
                  size_t N = (size_t[]){200, 300, 3000, 20000}[rng_below(&R, 4)]; const char *nm = NULL; char nmb[64];
                  for (size_t i = 0; i + 3 < MBN && !nm; i++) if ((i == 0 || MB[i - 1] == '\n') && MB[i] == '<' && MB[i + 1] != '/') { size_t j = i + 1, k = 0; while (j < MBN && k < 60 && MB[j] != '>' && MB[j] != ' ' && MB[j] != '\t' && MB[j] != '\n') nmb[k++] = (char)MB[j++]; nmb[k] = 0; if (k) nm = nmb; }
                  if (!nm || rng_chance(&R, 1, 3)) nm = "a";
                  size_t ll = strlen(nm) + 3; char *x = hm_alloc(N * ll + 1); for (size_t i = 0; i < N; i++) { x[i * ll] = '<'; memcpy(x + i * ll + 1, nm, ll - 3); x[i * ll + ll - 2] = '>'; x[i * ll + ll - 1] = '\n'; }
                  size_t where = rng_chance(&R, 1, 2) ? 0 : (at > MBN ? MBN : at); while (where > 0 && where < MBN && MB[where - 1] != '\n') where--;
                  mb_insert(where, x, N * ll); hm_free(x); vf_count("deeply_nested_section_documents", 1); } break;
        case 15: if (CUR_BN && !MUT_LONG) { /* a file that includes itself (the mutated copy is written as mut-<shard>-<pid>.conf next to the seed), directly or after some text */
                  char inc[96]; int n = snprintf(inc, sizeof inc, "@INCLUDE mut-%d-%d.conf\n", VF.shard, (int)getpid());
                  size_t where = rng_chance(&R, 1, 2) ? 0 : (at > MBN ? MBN : at); while (where > 0 && where < MBN && MB[where - 1] != '\n') where--;
                  mb_insert(where, inc, (size_t)n); vf_count("self_including_documents", 1); MUT_SELFINC = true; } break;
        case 13: if (CUR_BN) { /* include line naming an EXISTING file, padded with blanks to the neighbourhood of PATH_MAX (the blanks are trimmed before the file is opened) */
                  size_t L = rng_chance(&R, 3, 4) ? 4078 + rng_below(&R, 24) : 3000 + rng_below(&R, 3000), bl = strlen(CUR_BN); if (L < bl + 2) L = bl + 2;
                  size_t lead = rng_chance(&R, 1, 2) ? 0 : rng_below(&R, (uint32_t)(L - bl)); char *x = hm_alloc(L + 16); memcpy(x, "\n@INCLUDE ", 10); memset(x + 10, rng_chance(&R, 1, 4) ? '\t' : ' ', L); memcpy(x + 10 + lead, CUR_BN, bl); x[10 + L] = '\n';
                  if (rng_chance(&R, 1, 2)) mb_insert(0, x + 1, 10 + L); else mb_insert(at > MBN ? MBN : at, x, 11 + L);
                  hm_free(x); vf_count("long_include_lines_naming_an_existing_file", 1); } break;
        default: { static const char *T[] = {"%", "%x", "%zz", "%%", "+%2", "=", "==", "A", "AB", "ABC=", "=A==", "0", "abc", "g0"}; const char *q = T[rng_below(&R, 14)]; mb_insert(MBN, q, strlen(q)); break; }       /* hostile tails */
        }
    }
    (void)fn;
}
static char **SEEDS; static int NSEEDS; static char **SEEDCASE;
static void load_seeds(const char *dir) {
    DIR *d = opendir(dir); if (!d) return;
    struct dirent *de; int cap = 0;
    while ((de = readdir(d))) { size_t l = strlen(de->d_name); if (l < 6 || strcmp(de->d_name + l - 5, ".conf") || strstr(de->d_name, "_inc") || !strncmp(de->d_name, "mut-", 4)) continue;   /* mut-*: transient files of other shards */
        if (NSEEDS == cap) { cap = cap ? cap * 2 : 256; SEEDS = vf_xrealloc(SEEDS, sizeof(char *) * (size_t)cap); }
        char p[600]; snprintf(p, sizeof p, "%s/%s", dir, de->d_name); SEEDS[NSEEDS++] = vf_xdup(p, strlen(p) + 1); }
    closedir(d);
    /* deterministic order */
    for (int i = 1; i < NSEEDS; i++) { char *k = SEEDS[i]; int j = i - 1; while (j >= 0 && strcmp(SEEDS[j], k) > 0) { SEEDS[j + 1] = SEEDS[j]; j--; } SEEDS[j + 1] = k; }
}
static qaconf_option_t CASEOPTS[64]; static char CASENAMES[64][64];
static void load_case_options(const char *confpath) {
    char p[600]; snprintf(p, sizeof p, "%s", confpath); size_t l = strlen(p); memcpy(p + l - 5, ".case", 6);
    FILE *f = fopen(p, "r"); CUR_OPTS = DEFOPTS; CUR_FLAGS = 0; CUR_DEFCB = true; if (!f) return;
    char line[1024]; int n = 0; int flags = 0, defcb = 0;
    while (fgets(line, sizeof line, f)) { unsigned long take, sid, scope; int cb;
        if (!strncmp(line, "FLAGS ", 6)) flags = atoi(line + 6); else if (!strncmp(line, "DEFCB ", 6)) defcb = atoi(line + 6);
        else if (!strncmp(line, "OPT ", 4) && n < 63 && sscanf(line + 4, "%63s %lu %d %lu %lu", CASENAMES[n], &take, &cb, &sid, &scope) == 5) { CASEOPTS[n].name = CASENAMES[n]; CASEOPTS[n].take = (uint32_t)take; CASEOPTS[n].cb = cb ? no_cb : NULL; CASEOPTS[n].sectionid = sid; CASEOPTS[n].sections = scope; n++; } }
    fclose(f); memset(&CASEOPTS[n], 0, sizeof CASEOPTS[0]);
    if (n) { CUR_OPTS = CASEOPTS; CUR_FLAGS = flags; CUR_DEFCB = defcb; }
}
static void mutation_case(long caseno) {
    rng_seed(&R, VF.seed, (uint64_t)caseno);
    int which = (int)rng_below(&R, 10);
    if (which < 6 && NSEEDS) {
        const char *sp = SEEDS[rng_below(&R, (uint32_t)NSEEDS)]; const char *bn = strrchr(sp, '/') + 1; bool apache = bn[0] == 'a';
        size_t n = 0; char *txt = qfile_load(sp, &n); if (!txt) return;
        mb_set(txt, n); free(txt);
        CUR_BN = apache ? NULL : bn;
        if (!rng_chance(&R, 1, 8)) mutate(apache ? F_APACHE : F_INI_STR);
        CUR_BN = NULL;
        vf_case_begin(caseno, "mutated %s document from %s (%zu bytes)", apache ? "Apache-style" : "INI", bn, MBN);
        vf_log("document: %s", vf_hex(MB, MBN > 200 ? 200 : MBN));
        if (apache) { load_case_options(sp); evaluate(F_APACHE, MB, MBN, NULL); CUR_OPTS = DEFOPTS; CUR_FLAGS = (int)rng_below(&R, 4); CUR_DEFCB = rng_chance(&R, 1, 2); }
        else { /* file form: mutated main file next to its side files so that @INCLUDE resolves */
            if (rng_chance(&R, 1, 2)) { char p[700]; snprintf(p, sizeof p, "%s", sp); char *sl = strrchr(p, '/'); snprintf(sl + 1, sizeof p - (size_t)(sl + 1 - p), "mut-%d-%d.conf", VF.shard, (int)getpid());
                int fd = open(p, O_WRONLY | O_CREAT | O_TRUNC, 0600); if (fd >= 0) { if (write(fd, MB, MBN) == (ssize_t)MBN) { close(fd); evaluate(F_INI_FILE, MB, MBN, p); } else close(fd); unlink(p); } }
            else { size_t m = MBN; for (size_t i = 0; i < m; i++) if (!MB[i]) { m = i; break; } evaluate(F_INI_STR, MB, m, NULL); } }
        vf_count("mutated_documents", 1);
    } else {
        /* decoders / query: random strings over the significant bytes with hostile tails */
        int fn = (int)rng_below(&R, 4); size_t n = rng_below(&R, rng_chance(&R, 1, 10) ? 5000 : 40);
        static const unsigned char *AL[4] = {A_URL, A_B64, A_HEX, A_QRY}; static const int AK[4] = {8, 8, 6, 7};
        unsigned char *s = hm_alloc(n + 64); for (size_t i = 0; i < n; i++) s[i] = rng_chance(&R, 1, 6) ? (unsigned char)(1 + rng_below(&R, 255)) : AL[fn][rng_below(&R, (uint32_t)AK[fn])];
        mb_set(s, n); hm_free(s); if (rng_chance(&R, 1, 2)) mutate(fn);
        size_t m = MBN; for (size_t i = 0; i < m; i++) if (!MB[i]) { m = i; break; }
        if (fn == 3 && m > 150000) { m = 150000; MB[m] = 0; }   /* the query parser is quadratic in the number of pairs: 1 MB costs minutes under ASan and adds nothing */
        vf_case_begin(caseno, "random %s input (%zu bytes)", FNAME[fn], m);
        vf_log("input: %s", vf_hex(MB, m > 200 ? 200 : m));
        evaluate(fn, MB, m, NULL);
        vf_count("random_decoder_inputs", 1);
    }
    vf_distinct("distinct", vf_hash(MB, MBN, VF_H0 + 77));
    vf_san_poll();
}

int main(int argc, char **argv) {
    vf_init(argc, argv, "h_parse");
    if (strcmp(VF.prop, "C17")) { fprintf(stderr, "h_parse: unsupported property %s\n", VF.prop); return 2; }
    vf_ledger_enable(true);
    MEMFD = memfd_create("h_parse", 0);
    if (MEMFD < 0) { snprintf(SCRATCH, sizeof SCRATCH, "h_parse-%d-%d.tmp", (int)vf_arg_long("shard", 0), (int)getpid()); MEMFD = open(SCRATCH, O_RDWR | O_CREAT | O_TRUNC, 0600); snprintf(MEMPATH, sizeof MEMPATH, "%s", SCRATCH); }
    else snprintf(MEMPATH, sizeof MEMPATH, "/proc/self/fd/%d", MEMFD);
    int L = (int)vf_arg_long("maxlen", 5);
    long nmut = vf_arg_long("mutations", 20000);
    const char *dir = vf_arg_str("cases-dir", NULL);
    if (vf_arg_long("exhaustive", 1)) exhaustive(L);
    if (dir) load_seeds(dir);
    vf_max("seed_documents", NSEEDS);
    /* mutation cases are numbered after the exhaustive ones so that a restart after a hang does not repeat the exhaustive phase */
    for (long c = 0; c < nmut; c++) if (vf_mine(9000000000L + c)) mutation_case(9000000000L + c);
    vf_count("popen_calls_neutralised", vf_popen_calls);
    if (VF.shard == 0) { vf_sample("exhaustive: all strings up to length %d over {%% + a F 0 g space 0x80} (URL), {A / = - LF z + 0xff} (Base64), {0 a F g space 0x80} (hex, +1), {= & %% + a 1 space} (query), {a = [ ] $ { } %% . # LF space} (INI), {a 1 < > / \" ' \\ space LF #} (Apache)", L);
                         vf_sample("mutation: generated INI / Apache-style documents with truncation, duplication, deletion, bit flips, inserted quotes/brackets/escapes, trailing backslash, 4095/4096/9000-byte lines, self- and mutually-referential ${..}, hostile @INCLUDE"); }
    if (SCRATCH[0]) unlink(SCRATCH);
    return vf_finish() ? 1 : 0;
}
