/* h_conc.c - concurrency monitor for C13 (containers created with their thread-safe option).
 *
 * controlled mode (plain build): small client programs (2-3 threads x 2-3 operations on shared
 *   keys / positions) are executed under injected schedules.  Workers are real pthreads but exactly
 *   one runs at a time; at every scheduling point - outermost lock acquisition, after the outermost
 *   release, every library allocator call, usleep - the running worker parks and the next one is
 *   chosen from the enabled set (a worker waiting for a mutex owned by another worker is disabled).
 *   The choice sequence is enumerated depth-first (all schedules when within budget) or drawn at
 *   random.  Every execution yields a history (invocation/response stamps, results, final contents)
 *   that is checked for linearizability against a sequential model (Wing-Gong search, memoised).
 * stress mode (plain and tsan builds): 4-8 truly concurrent threads with random delays injected
 *   at the same points; histories with unique values are checked per key (maps) or by
 *   conservation / order rules (sequences); the tsan build adds the data-race oracle.
 */
#define _GNU_SOURCE
#include <stdlib.h>
#include <string.h>
#include <errno.h>
#include <pthread.h>
#include <sched.h>
#include <sys/mman.h>
#include <unistd.h>
#include "qlibc.h"
#include "vfc.h"
#include "vflock.h"

int __real_usleep(useconds_t);

enum { K_TREE, K_HASH, K_LISTTBL, K_LIST, K_QUEUE, K_STACK, K_VECTOR, K_LISTMULTI, NKINDS };
static const char *KNAME[NKINDS] = {"qtreetbl", "qhashtbl", "qlisttbl(unique)", "qlist", "qqueue", "qstack", "qvector", "qlisttbl(multi,inserttop)"};
static bool is_map(int k) { return k <= K_LISTTBL; }                       /* one value per key */
static bool is_keyed(int k) { return k <= K_LISTTBL || k == K_LISTMULTI; } /* put/get/remove/clear/walk family; K_LISTMULTI keeps every value of a key, in insertion order */

/* operations */
enum { O_PUT, O_GET, O_REMOVE, O_CLEAR, O_WALK,                       /* maps */
       O_ADDFIRST, O_ADDLAST, O_POPFIRST, O_POPLAST, O_GETFIRST, O_GETLAST, O_TOARRAY, O_TOSTRING, O_SEQCLEAR,
       O_FINDMIN, O_FINDMAX, O_NEAREST,                                  /* tree only: copying ordered lookups */
       O_ADDAT, O_GETAT, O_POPAT,                                         /* list, vector: position = key */
       O_GETMULTI,                                                        /* list table without the unique option */
       O_REVERSE, O_REMOVEAT, O_SETAT, O_RMFIRST, O_RMLAST, O_RESIZE,     /* removefirst/removelast (list, vector), resize(1 or 6) (vector) */
       /* (continued) */                                    /* list, vector (setat: vector only): reverse(), removeat(position), setat(position, value) */
       O_LOAD,                                                            /* list tables: load() of a two-line file (keys k2, k3), appended at the bottom in file order */
       O_NEXT1, O_NEXT1ANY,                                               /* one stand-alone getnext(copy) on a fresh cursor, NOT under the caller's lock: named (list tables) / unnamed (tree: smallest key; multi list table: first entry) */
       NOPS };
static const char *ONAME[NOPS] = {"put", "get", "remove", "clear", "locked-walk", "addfirst", "addlast", "popfirst", "poplast", "getfirst", "getlast", "toarray", "tostring", "clear",
                                  "find_min", "find_max", "find_nearest", "addat", "getat", "popat", "getmulti", "reverse", "removeat", "setat", "removefirst", "removelast", "resize", "load", "getnext-first", "getnext-first-any"};
static bool is_add(int op) { return op == O_ADDFIRST || op == O_ADDLAST || op == O_ADDAT; }
static bool is_pop(int op) { return op == O_POPFIRST || op == O_POPLAST || op == O_POPAT; }
static bool is_seqget(int op) { return op == O_GETFIRST || op == O_GETLAST || op == O_GETAT || op == O_NEXT1; }
#define MAXSNAP 48
typedef struct { int op, key; uint64_t val; } opspec_t;
typedef struct { int ok; uint64_t val; int n; uint64_t snap[MAXSNAP]; uint64_t keys[MAXSNAP]; } opres_t;
typedef struct { opspec_t s; opres_t r; long inv, resp; int thread; bool done; } hop_t;

typedef struct {
    int kind;
    qtreetbl_t *tree; qhashtbl_t *hash; qlisttbl_t *ltbl; qlist_t *list; qqueue_t *queue; qstack_t *stack; qvector_t *vec;
    void *mutex;
} ctx_t;

static rng_t R;
static volatile long STAMP;
static long stamp(void) { return __atomic_add_fetch(&STAMP, 1, __ATOMIC_RELAXED); }

static __thread char KB[8][8];
static const char *kname(int k) { snprintf(KB[k & 7], 8, "k%d", k); return KB[k & 7]; }
static int kid(const char *name) { return name && name[0] == 'k' ? atoi(name + 1) : -1; }

static void make(ctx_t *c, int kind) {
    memset(c, 0, sizeof *c); c->kind = kind;
    switch (kind) {
    case K_TREE: c->tree = qtreetbl(QTREETBL_THREADSAFE); c->mutex = c->tree ? c->tree->qmutex : NULL; break;
    case K_HASH: c->hash = qhashtbl(3, QHASHTBL_THREADSAFE); c->mutex = c->hash ? c->hash->qmutex : NULL; break;
    case K_LISTTBL: c->ltbl = qlisttbl(QLISTTBL_THREADSAFE | QLISTTBL_UNIQUE); c->mutex = c->ltbl ? c->ltbl->qmutex : NULL; break;
    case K_LIST: c->list = qlist(QLIST_THREADSAFE); c->mutex = c->list ? c->list->qmutex : NULL; break;
    case K_QUEUE: c->queue = qqueue(QQUEUE_THREADSAFE); c->mutex = c->queue ? c->queue->list->qmutex : NULL; break;
    case K_STACK: c->stack = qstack(QSTACK_THREADSAFE); c->mutex = c->stack ? c->stack->list->qmutex : NULL; break;
    case K_VECTOR: c->vec = qvector(0, 8, QVECTOR_THREADSAFE); c->mutex = c->vec ? c->vec->qmutex : NULL; break;
    case K_LISTMULTI: c->ltbl = qlisttbl(QLISTTBL_THREADSAFE | QLISTTBL_LOOKUPFORWARD | QLISTTBL_INSERTTOP);   /* new entries go to the top, load() appends at the bottom */ c->mutex = c->ltbl ? c->ltbl->qmutex : NULL; break;
    }
    if (!c->mutex) { fprintf(stderr, "h_conc: constructor failed\n"); exit(2); }
}
static void destroy(ctx_t *c) {
    switch (c->kind) {
    case K_TREE: c->tree->free(c->tree); break; case K_HASH: c->hash->free(c->hash); break; case K_LISTTBL: c->ltbl->free(c->ltbl); break;
    case K_LIST: c->list->free(c->list); break; case K_QUEUE: c->queue->free(c->queue); break; case K_STACK: c->stack->free(c->stack); break;
    case K_VECTOR: c->vec->free(c->vec); break; case K_LISTMULTI: c->ltbl->free(c->ltbl); break;
    }
}

/* values are 8 bytes without a zero byte; the string front ends store them with a terminator (9 bytes) */
static uint64_t val_of(const void *d, size_t sz) { uint64_t v = ~0ULL; if (d && (sz == 8 || (sz == 9 && ((const char *)d)[8] == 0))) memcpy(&v, d, 8); return v; }
#define PUT3(T_, put_, putstr_, putstrf_) do { char s9[9]; memcpy(s9, &v, 8); s9[8] = 0; int w_ = (int)((s->val >> 9) % 3); \
        r->ok = w_ == 0 ? T_->put_(T_, k, &v, 8) : w_ == 1 ? T_->putstr_(T_, k, s9) : T_->putstrf_(T_, k, "%s", s9); } while (0)
static char LOADPATH[64]; static uint64_t LOADV[2];
/* execute one operation on the real container */
static void do_op(ctx_t *c, const opspec_t *s, opres_t *r) {
    memset(r, 0, sizeof *r);
    uint64_t v = s->val; const char *k = kname(s->key);
    switch (c->kind) {
    case K_TREE: { qtreetbl_t *t = c->tree;
        switch (s->op) {
        case O_PUT: PUT3(t, put, putstr, putstrf); break;
        case O_GET: { size_t sz = 0; void *d; if (s->val & 0x400) { d = t->getstr(t, k, true); sz = 8; } else d = t->get(t, k, &sz, true); r->ok = d != NULL; if (d) { r->val = val_of(d, sz); free(d); } break; }
        case O_REMOVE: r->ok = t->remove(t, k); break;
        case O_CLEAR: t->clear(t); r->ok = 1; break;
        case O_WALK: { qtreetbl_obj_t o; memset(&o, 0, sizeof o); t->lock(t);
            while (t->getnext(t, &o, false) && r->n < MAXSNAP) { r->keys[r->n] = (uint64_t)kid(o.name); r->snap[r->n] = val_of(o.data, o.datasize); r->n++; }
            t->unlock(t); r->ok = 1; break; }
        case O_FINDMIN: case O_FINDMAX: { size_t ns = 0; char *nm = s->op == O_FINDMIN ? t->find_min(t, &ns) : t->find_max(t, &ns); r->ok = nm != NULL;
            if (nm) { r->keys[0] = (ns == strlen(k) + 1 && nm[ns - 1] == 0) ? (uint64_t)kid(nm) : 99; free(nm); } break; }
        case O_NEAREST: { qtreetbl_obj_t o = t->find_nearest(t, k, strlen(k) + 1, true); r->ok = o.name != NULL;
            if (o.name) { r->keys[0] = (o.namesize == strlen(k) + 1 && ((char *)o.name)[o.namesize - 1] == 0) ? (uint64_t)kid(o.name) : 99; r->val = val_of(o.data, o.datasize); free(o.name); free(o.data); } break; }
        } break; }
    case K_HASH: { qhashtbl_t *t = c->hash;
        switch (s->op) {
        case O_PUT: PUT3(t, put, putstr, putstrf); break;
        case O_GET: { size_t sz = 0; void *d; if (s->val & 0x400) { d = t->getstr(t, k, true); sz = 8; } else d = t->get(t, k, &sz, true); r->ok = d != NULL; if (d) { r->val = val_of(d, sz); free(d); } break; }
        case O_REMOVE: r->ok = t->remove(t, k); break;
        case O_CLEAR: t->clear(t); r->ok = 1; break;
        case O_WALK: { qhashtbl_obj_t o; memset(&o, 0, sizeof o); t->lock(t);
            while (t->getnext(t, &o, false) && r->n < MAXSNAP) { r->keys[r->n] = (uint64_t)kid(o.name); r->snap[r->n] = val_of(o.data, o.size); r->n++; }
            t->unlock(t); r->ok = 1; break; }
        } break; }
    case K_LISTTBL: { qlisttbl_t *t = c->ltbl;
        switch (s->op) {
        case O_PUT: PUT3(t, put, putstr, putstrf); break;
        case O_GET: { size_t sz = 0; void *d = t->get(t, k, &sz, true); r->ok = d != NULL; if (d) { r->val = val_of(d, sz); free(d); } break; }
        case O_REMOVE: r->ok = t->remove(t, k) > 0; break;
        case O_CLEAR: t->clear(t); r->ok = 1; break;
        case O_LOAD: r->ok = t->load(t, LOADPATH, '=', false) == 2; break;
        case O_NEXT1: { qlisttbl_obj_t o; memset(&o, 0, sizeof o); r->ok = t->getnext(t, &o, k, true);
            if (r->ok) { r->keys[0] = o.name ? (uint64_t)kid(o.name) : 99; r->val = val_of(o.data, o.size); free(o.name); free(o.data); } break; }
        case O_WALK: { qlisttbl_obj_t o; memset(&o, 0, sizeof o); t->lock(t);
            while (t->getnext(t, &o, NULL, false) && r->n < MAXSNAP) { r->keys[r->n] = (uint64_t)kid(o.name); r->snap[r->n] = val_of(o.data, o.size); r->n++; }
            t->unlock(t); r->ok = 1; break; }
        } break; }
    case K_LISTMULTI: { qlisttbl_t *t = c->ltbl;
        switch (s->op) {
        case O_PUT: PUT3(t, put, putstr, putstrf); break;
        case O_GET: { size_t sz = 0; void *d = t->get(t, k, &sz, true); r->ok = d != NULL; if (d) { r->val = val_of(d, sz); free(d); } break; }
        case O_REMOVE: r->ok = t->remove(t, k) > 0; break;
        case O_CLEAR: t->clear(t); r->ok = 1; break;
        case O_LOAD: r->ok = t->load(t, LOADPATH, '=', false) == 2; break;
        case O_NEXT1: case O_NEXT1ANY: { qlisttbl_obj_t o; memset(&o, 0, sizeof o); r->ok = t->getnext(t, &o, s->op == O_NEXT1 ? k : NULL, true);
            if (r->ok) { r->keys[0] = o.name ? (uint64_t)kid(o.name) : 99; r->val = val_of(o.data, o.size); free(o.name); free(o.data); } break; }
        case O_GETMULTI: { size_t n = 0; qlisttbl_data_t *a = t->getmulti(t, k, true, &n); r->ok = 1;
            if (a) { for (size_t i = 0; i < n; i++) { if (r->n >= 0 && r->n < MAXSNAP) { r->snap[r->n] = val_of(a[i].data, a[i].size); r->n++; } else r->n = -2; free(a[i].data); } free(a); } break; }
        case O_WALK: { qlisttbl_obj_t o; memset(&o, 0, sizeof o); t->lock(t);
            while (t->getnext(t, &o, NULL, false)) { if (r->n < 0 || r->n >= MAXSNAP) { r->n = -2; continue; } r->keys[r->n] = (uint64_t)kid(o.name); r->snap[r->n] = val_of(o.data, o.size); r->n++; }
            t->unlock(t); r->ok = 1; break; }
        } break; }
    case K_LIST: { qlist_t *l = c->list; size_t sz = 0; void *d = NULL;
        switch (s->op) {
        case O_ADDFIRST: r->ok = l->addfirst(l, &v, 8); break;
        case O_ADDLAST: r->ok = l->addlast(l, &v, 8); break;
        case O_POPFIRST: d = l->popfirst(l, &sz); break;
        case O_POPLAST: d = l->poplast(l, &sz); break;
        case O_GETFIRST: d = l->getfirst(l, &sz, true); break;
        case O_GETLAST: d = l->getlast(l, &sz, true); break;
        case O_SEQCLEAR: l->clear(l); r->ok = 1; break;
        case O_NEXT1: { qlist_obj_t o; memset(&o, 0, sizeof o); if (l->getnext(l, &o, true)) { d = o.data; sz = o.size; } break; }
        case O_RMFIRST: r->ok = l->removefirst(l); break;
        case O_RMLAST: r->ok = l->removelast(l); break;
        case O_REVERSE: l->reverse(l); r->ok = 1; break;
        case O_REMOVEAT: r->ok = l->removeat(l, s->key); break;
        case O_ADDAT: r->ok = l->addat(l, s->key, &v, 8); break;
        case O_GETAT: d = l->getat(l, s->key, &sz, true); break;
        case O_POPAT: d = l->popat(l, s->key, &sz); break;
        case O_TOARRAY: { size_t tot = 0; void *a = l->toarray(l, &tot); r->ok = 1; if (a) { if (tot % 8) r->n = -1; else { r->n = (int)(tot / 8 > MAXSNAP ? MAXSNAP : tot / 8); memcpy(r->snap, a, (size_t)r->n * 8); } free(a); } break; }
        case O_TOSTRING: { char *a = l->tostring(l); r->ok = 1; if (a) { /* elements are 8 bytes without NUL inside (ids have no zero byte) */ size_t len = strlen(a); if (len % 8) r->n = -1; else { r->n = (int)(len / 8 > MAXSNAP ? MAXSNAP : len / 8); memcpy(r->snap, a, (size_t)r->n * 8); } free(a); } break; }
        }
        if (is_pop(s->op) || is_seqget(s->op)) { r->ok = d != NULL; if (d) { r->val = val_of(d, sz); free(d); } }
        break; }
    case K_QUEUE: case K_STACK: { size_t sz = 0; void *d = NULL; qqueue_t *q = c->queue; qstack_t *st = c->stack; bool isq = c->kind == K_QUEUE;
        switch (s->op) {
        case O_ADDLAST: case O_ADDFIRST: r->ok = isq ? q->push(q, &v, 8) : st->push(st, &v, 8); break;            /* push */
        case O_POPFIRST: d = isq ? q->pop(q, &sz) : st->pop(st, &sz); r->ok = d != NULL; break;                     /* pop */
        case O_GETFIRST: d = isq ? q->get(q, &sz, true) : st->get(st, &sz, true); r->ok = d != NULL; break;         /* get */
        case O_SEQCLEAR: if (isq) q->clear(q); else st->clear(st); r->ok = 1; break;
        }
        if (d) { r->val = val_of(d, sz); free(d); }
        break; }
    case K_VECTOR: { qvector_t *vv = c->vec; void *d = NULL;
        switch (s->op) {
        case O_ADDFIRST: r->ok = vv->addfirst(vv, &v); break;
        case O_ADDLAST: r->ok = vv->addlast(vv, &v); break;
        case O_POPFIRST: d = vv->popfirst(vv); break;
        case O_POPLAST: d = vv->poplast(vv); break;
        case O_GETFIRST: d = vv->getfirst(vv, true); break;
        case O_GETLAST: d = vv->getlast(vv, true); break;
        case O_SEQCLEAR: vv->clear(vv); r->ok = 1; break;
        case O_NEXT1: { qvector_obj_t o; memset(&o, 0, sizeof o); if (vv->getnext(vv, &o, true)) d = o.data; break; }
        case O_RMFIRST: r->ok = vv->removefirst(vv); break;
        case O_RMLAST: r->ok = vv->removelast(vv); break;
        case O_RESIZE: r->ok = vv->resize(vv, s->key ? 6 : 1); break;
        case O_REVERSE: vv->reverse(vv); r->ok = 1; break;
        case O_REMOVEAT: r->ok = vv->removeat(vv, s->key); break;
        case O_SETAT: r->ok = vv->setat(vv, s->key, &v); break;
        case O_ADDAT: r->ok = vv->addat(vv, s->key, &v); break;
        case O_GETAT: d = vv->getat(vv, s->key, true); break;
        case O_POPAT: d = vv->popat(vv, s->key); break;
        case O_TOARRAY: { size_t cnt = 0; void *a = vv->toarray(vv, &cnt); r->ok = 1; if (a) { r->n = (int)(cnt > MAXSNAP ? MAXSNAP : cnt); memcpy(r->snap, a, (size_t)r->n * 8); free(a); } break; }
        }
        if (is_pop(s->op) || is_seqget(s->op)) { r->ok = d != NULL; if (d) { memcpy(&r->val, d, 8); free(d); } }
        break; }
    }
}

static int CUR_MAX;      /* element limit set with setsize() on the list / queue / stack under test (0 = none): an add at the limit is refused */
static void set_max(ctx_t *c, int max) { if (c->kind == K_LIST) c->list->setsize(c->list, (size_t)max); else if (c->kind == K_QUEUE) c->queue->setsize(c->queue, (size_t)max); else if (c->kind == K_STACK) c->stack->setsize(c->stack, (size_t)max); }
/* ---- sequential models --------------------------------------------------------------------- */
#define NKEYS 4
typedef struct { uint64_t map[NKEYS]; uint64_t seq[MAXSNAP * 2]; unsigned char skey[MAXSNAP * 2]; int n; } model_t;
static uint64_t model_hash(const model_t *m, int kind) { return is_map(kind) ? vf_hash(m->map, sizeof m->map, VF_H0) : kind == K_LISTMULTI ? vf_hash(m->skey, (size_t)m->n, vf_hash(m->seq, (size_t)m->n * 8, VF_H0 + (uint64_t)m->n)) : vf_hash(m->seq, (size_t)m->n * 8, VF_H0 + (uint64_t)m->n); }
static void seq_ins(model_t *m, int pos, uint64_t v) { if (m->n >= MAXSNAP * 2) return; memmove(&m->seq[pos + 1], &m->seq[pos], (size_t)(m->n - pos) * 8); m->seq[pos] = v; m->n++; }
static uint64_t seq_del(model_t *m, int pos) { uint64_t v = m->seq[pos]; memmove(&m->seq[pos], &m->seq[pos + 1], (size_t)(m->n - pos - 1) * 8); m->n--; return v; }
/* apply op to the model; true iff the recorded result is what the model answers */
static bool model_apply(int kind, model_t *m, const hop_t *h) {
    const opspec_t *s = &h->s; const opres_t *r = &h->r;
    if (kind == K_LISTMULTI) {       /* ordered multimap: entries in insertion order, lookups from the first entry */
        switch (s->op) {
        case O_PUT: if (m->n < MAXSNAP * 2) { memmove(&m->seq[1], &m->seq[0], (size_t)m->n * 8); memmove(&m->skey[1], &m->skey[0], (size_t)m->n); m->seq[0] = s->val; m->skey[0] = (unsigned char)s->key; m->n++; } return r->ok == 1;
        case O_LOAD: for (int j = 0; j < 2 && m->n < MAXSNAP * 2; j++) { m->seq[m->n] = LOADV[j]; m->skey[m->n] = (unsigned char)(2 + j); m->n++; } return r->ok == 1;
        case O_GET: { for (int i = 0; i < m->n; i++) if (m->skey[i] == s->key) return r->ok && r->val == m->seq[i]; return !r->ok; }
        case O_REMOVE: { int w = 0, had = 0; for (int i = 0; i < m->n; i++) { if (m->skey[i] == s->key) { had = 1; continue; } m->seq[w] = m->seq[i]; m->skey[w] = m->skey[i]; w++; } m->n = w; if (r->ok == -1) return true; return (r->ok != 0) == (had != 0); }
        case O_CLEAR: m->n = 0; return true;
        case O_NEXT1: { for (int i = 0; i < m->n; i++) if (m->skey[i] == s->key) return r->ok && (int)r->keys[0] == s->key && r->val == m->seq[i]; return !r->ok; }
        case O_NEXT1ANY: return m->n ? (r->ok && r->keys[0] == m->skey[0] && r->val == m->seq[0]) : !r->ok;
        case O_GETMULTI: { int j = 0; for (int i = 0; i < m->n; i++) if (m->skey[i] == s->key) { if (j >= r->n || r->snap[j] != m->seq[i]) return false; j++; } return j == r->n; }
        case O_WALK: { if (r->n != m->n) return false; for (int i = 0; i < m->n; i++) if (r->keys[i] != m->skey[i] || r->snap[i] != m->seq[i]) return false; return true; }
        }
        return false;
    }
    if (is_map(kind)) {
        switch (s->op) {
        case O_PUT: m->map[s->key] = s->val; return r->ok == 1;
        case O_GET: return m->map[s->key] ? (r->ok && r->val == m->map[s->key]) : !r->ok;
        case O_REMOVE: { bool had = m->map[s->key] != 0; m->map[s->key] = 0; if (r->ok == -1) return true; /* projected clear(): no result to judge */ return (r->ok != 0) == had; }
        case O_CLEAR: memset(m->map, 0, sizeof m->map); return true;
        case O_WALK: { int cnt = 0; for (int k = 0; k < NKEYS; k++) if (m->map[k]) cnt++;
            if (r->n != cnt) return false;
            for (int i = 0; i < r->n; i++) { if (r->keys[i] >= NKEYS || m->map[r->keys[i]] != r->snap[i]) return false; for (int j = 0; j < i; j++) if (r->keys[j] == r->keys[i]) return false; }
            return true; }
        case O_LOAD: m->map[2] = LOADV[0]; m->map[3] = LOADV[1]; return r->ok == 1;
        case O_NEXT1: return m->map[s->key] ? (r->ok && (int)r->keys[0] == s->key && r->val == m->map[s->key]) : !r->ok;
        case O_FINDMIN: case O_FINDMAX: { int f = -1; for (int k = 0; k < NKEYS; k++) if (m->map[k]) { f = k; if (s->op == O_FINDMIN) break; }
            return f < 0 ? !r->ok : (r->ok && (int)r->keys[0] == f); }
        case O_NEAREST: { int f = -1; for (int k = 0; k <= s->key; k++) if (m->map[k]) f = k;          /* floor ... */
            if (f < 0) for (int k = NKEYS - 1; k > s->key; k--) if (m->map[k]) f = k;                   /* ... else the smallest key */
            return f < 0 ? !r->ok : (r->ok && (int)r->keys[0] == f && r->val == m->map[f]); }
        }
        return false;
    }
    bool stack = kind == K_STACK, queue = kind == K_QUEUE;
    switch (s->op) {
    case O_ADDFIRST: if (CUR_MAX && m->n >= CUR_MAX) return !r->ok; if (queue) { seq_ins(m, m->n, s->val); return r->ok == 1; } seq_ins(m, 0, s->val); return r->ok == 1;
    case O_ADDLAST: if (CUR_MAX && m->n >= CUR_MAX) return !r->ok; if (stack) { seq_ins(m, 0, s->val); return r->ok == 1; } seq_ins(m, m->n, s->val); return r->ok == 1;
    case O_POPFIRST: if (m->n == 0) return !r->ok; { uint64_t v = seq_del(m, 0); return r->ok && r->val == v; }
    case O_POPLAST: if (m->n == 0) return !r->ok; { uint64_t v = seq_del(m, m->n - 1); return r->ok && r->val == v; }
    case O_GETFIRST: case O_NEXT1: if (m->n == 0) return !r->ok; return r->ok && r->val == m->seq[0];
    case O_GETLAST: if (m->n == 0) return !r->ok; return r->ok && r->val == m->seq[m->n - 1];
    case O_SEQCLEAR: m->n = 0; return true;
    case O_REVERSE: for (int i = 0; i < m->n / 2; i++) { uint64_t t = m->seq[i]; m->seq[i] = m->seq[m->n - 1 - i]; m->seq[m->n - 1 - i] = t; } return true;
    case O_RMFIRST: if (m->n == 0) return !r->ok; seq_del(m, 0); return r->ok == 1;
    case O_RMLAST: if (m->n == 0) return !r->ok; seq_del(m, m->n - 1); return r->ok == 1;
    case O_RESIZE: { int cap = s->key ? 6 : 1; if (m->n > cap) m->n = cap; return r->ok == 1; }
    case O_REMOVEAT: if (s->key >= m->n) return !r->ok; seq_del(m, s->key); return r->ok == 1;
    case O_SETAT: if (s->key >= m->n) return !r->ok; m->seq[s->key] = s->val; return r->ok == 1;
    case O_ADDAT: if (s->key > m->n || (CUR_MAX && m->n >= CUR_MAX)) return !r->ok; seq_ins(m, s->key, s->val); return r->ok == 1;
    case O_GETAT: if (s->key >= m->n) return !r->ok; return r->ok && r->val == m->seq[s->key];
    case O_POPAT: if (s->key >= m->n) return !r->ok; { uint64_t v = seq_del(m, s->key); return r->ok && r->val == v; }
    case O_TOARRAY: case O_TOSTRING: if (r->n != m->n) return false; return m->n == 0 || !memcmp(r->snap, m->seq, (size_t)m->n * 8);
    }
    return false;
}

/* ---- Wing-Gong linearizability search ---------------------------------------------------------- */
static uint64_t *MEMO; static size_t MEMOCAP, MEMON;
static bool memo_add(uint64_t h) {
    if (!h) h = 1;
    if ((MEMON + 1) * 10 >= MEMOCAP * 6) { size_t oc = MEMOCAP; uint64_t *ot = MEMO; MEMOCAP = oc ? oc * 2 : 4096; MEMO = __real_calloc(MEMOCAP, 8); if (!MEMO) exit(2); MEMON = 0;
        for (size_t i = 0; i < oc; i++) if (ot[i]) memo_add(ot[i]); hm_free(ot); }
    size_t i = (size_t)(h * 0x9E3779B97F4A7C15ULL >> 20) & (MEMOCAP - 1);
    while (MEMO[i]) { if (MEMO[i] == h) return false; i = (i + 1) & (MEMOCAP - 1); }
    MEMO[i] = h; MEMON++; return true;
}
static long lin_steps, lin_cap;
static int lin_rec(int kind, hop_t *H, int n, uint64_t done, const model_t *m, int *order, int depth) {
    if (depth == n) return 1;
    if (++lin_steps > lin_cap) return -1;
    if (!memo_add(done * 0x9E3779B97F4A7C15ULL ^ model_hash(m, kind))) return 0;
    /* minimal operations: not yet linearized and no other unlinearized operation responded before their invocation */
    long minresp = -1;
    for (int i = 0; i < n; i++) if (!(done >> i & 1) && H[i].done && (minresp < 0 || H[i].resp < minresp)) minresp = H[i].resp;
    for (int i = 0; i < n; i++) {
        if (done >> i & 1) continue;
        if (minresp >= 0 && H[i].inv > minresp) continue;
        model_t m2 = *m;
        if (!model_apply(kind, &m2, &H[i])) continue;
        order[depth] = i;
        int r = lin_rec(kind, H, n, done | (1ULL << i), &m2, order, depth + 1);
        if (r != 0) return r;
    }
    return 0;
}
/* 1 linearizable, 0 not, -1 inconclusive (step cap) */
static int linearizable(int kind, hop_t *H, int n, const model_t *init, int *order) {
    if (n > 60) return -1;
    MEMON = 0; if (MEMO) memset(MEMO, 0, MEMOCAP * 8);
    lin_steps = 0; lin_cap = 2000000;
    return lin_rec(kind, H, n, 0, init, order, 0);
}
static void describe(char *b, size_t bs, const hop_t *h) {
    int n = snprintf(b, bs, "T%d %s", h->thread, ONAME[h->s.op]);
    if (h->s.op <= O_REMOVE || h->s.op == O_NEAREST || h->s.op == O_GETMULTI) n += snprintf(b + n, bs - (size_t)n, "(k%d", h->s.key); else if (h->s.op == O_NEXT1) n += snprintf(b + n, bs - (size_t)n, "(%d", h->s.key); else if ((h->s.op >= O_ADDAT && h->s.op <= O_POPAT) || h->s.op == O_REMOVEAT || h->s.op == O_SETAT || h->s.op == O_RESIZE) n += snprintf(b + n, bs - (size_t)n, "(@%d", h->s.key); else n += snprintf(b + n, bs - (size_t)n, "(");
    if (h->s.op == O_PUT || is_add(h->s.op) || h->s.op == O_SETAT) n += snprintf(b + n, bs - (size_t)n, "%sv%llx", h->s.op == O_PUT || h->s.op == O_ADDAT || h->s.op == O_SETAT ? "," : "", (unsigned long long)h->s.val);
    n += snprintf(b + n, bs - (size_t)n, ") -> ");
    if (h->s.op == O_WALK || h->s.op == O_TOARRAY || h->s.op == O_TOSTRING || h->s.op == O_GETMULTI) { n += snprintf(b + n, bs - (size_t)n, "["); for (int i = 0; i < h->r.n && n < (int)bs - 30; i++) n += snprintf(b + n, bs - (size_t)n, h->s.op == O_WALK ? "k%llu=v%llx " : "%.0llu" "v%llx ", h->s.op == O_WALK ? (unsigned long long)h->r.keys[i] : 0ULL, (unsigned long long)h->r.snap[i]); n += snprintf(b + n, bs - (size_t)n, "]"); }
    else if (h->r.ok && (h->s.op == O_FINDMIN || h->s.op == O_FINDMAX)) n += snprintf(b + n, bs - (size_t)n, "k%llu", (unsigned long long)h->r.keys[0]);
    else if (h->r.ok && (h->s.op == O_NEAREST || h->s.op == O_NEXT1 || h->s.op == O_NEXT1ANY)) n += snprintf(b + n, bs - (size_t)n, "k%llu=v%llx", (unsigned long long)h->r.keys[0], (unsigned long long)h->r.val);
    else if (h->r.ok && (h->s.op == O_GET || is_pop(h->s.op) || is_seqget(h->s.op))) n += snprintf(b + n, bs - (size_t)n, "v%llx", (unsigned long long)h->r.val);
    else n += snprintf(b + n, bs - (size_t)n, "%s", h->r.ok ? "ok" : "none/false");
    snprintf(b + n, bs - (size_t)n, "  [inv %ld, resp %ld]", h->inv, h->resp);
}

/* ============================================================ controlled scheduler ============ */
#define MAXW 4
#define MAXOPS 4
#define MAXCHOICE 4096
typedef struct { int nthreads; int nops[MAXW]; opspec_t ops[MAXW][MAXOPS]; int kind; int prefill; int maxsize; } program_t;
typedef struct { int id; pthread_t th; volatile int state; int park_kind; void *park_mutex; } worker_t;
enum { W_NEW, W_PARKED, W_RUNNING, W_DONE };
static worker_t W[MAXW]; static int NW;
static pthread_mutex_t SM = PTHREAD_MUTEX_INITIALIZER; static pthread_cond_t SC = PTHREAD_COND_INITIALIZER;
static volatile int CUR = -1;
static void *OWN_M; static int OWNER = -1;
static __thread int MYID = -1; static __thread int IN_OP = 0;
static int CH[MAXCHOICE], NEN[MAXCHOICE]; static int CHN, PREFIXN; static bool RANDOM_SCHED; static rng_t SR;
static bool DEADLOCK;
static ctx_t CX; static program_t *PG;
static hop_t HIST[MAXW * MAXOPS + 2]; static int NH;
static long sched_points;

/* called with SM held: choose the next worker to run; returns -1 when all are done */
static int pick_next(void) {
    int en[MAXW], ne = 0, unfinished = 0;
    for (int i = 0; i < NW; i++) {
        if (W[i].state == W_DONE) continue;
        unfinished++;
        if (W[i].state == W_PARKED && W[i].park_kind == VF_PT_TRYLOCK && OWNER >= 0 && OWNER != i && W[i].park_mutex == OWN_M) continue;   /* would block */
        en[ne++] = i;
    }
    if (!unfinished) return -1;
    if (!ne) { DEADLOCK = true; return -2; }
    int c = 0;
    if (ne > 1) {
        if (CHN < MAXCHOICE) {
            if (RANDOM_SCHED) c = (int)rng_below(&SR, (uint32_t)ne);
            else c = CHN < PREFIXN ? CH[CHN] : 0;
            if (c >= ne) c = ne - 1;
            CH[CHN] = c; NEN[CHN] = ne; CHN++;
        }
    }
    return en[c];
}
static void hand_over_and_wait(int me) {   /* SM held */
    int nx = pick_next();
    if (nx == -2) { /* deadlock: nobody can run */ CUR = -2; pthread_cond_broadcast(&SC); }
    else { CUR = nx; pthread_cond_broadcast(&SC); }
    if (me >= 0) while (CUR != me && CUR != -2) pthread_cond_wait(&SC, &SM);
}
static void sched_cb(int point, void *m) {
    int me = MYID;
    if (me < 0 || !IN_OP) return;
    if (point == VF_PT_LOCKED) { OWNER = me; OWN_M = m; return; }
    pthread_mutex_lock(&SM);
    if (point == VF_PT_UNLOCKED && OWNER == me) OWNER = -1;
    sched_points++;
    W[me].state = W_PARKED; W[me].park_kind = point; W[me].park_mutex = m;
    hand_over_and_wait(me);
    if (CUR == -2) { pthread_mutex_unlock(&SM); pthread_exit(NULL); }
    W[me].state = W_RUNNING;
    pthread_mutex_unlock(&SM);
}
static void *worker_main(void *arg) {
    worker_t *w = arg; MYID = w->id;
    pthread_mutex_lock(&SM);
    w->state = W_PARKED; w->park_kind = 0;
    pthread_cond_broadcast(&SC);
    while (CUR != w->id && CUR != -2) pthread_cond_wait(&SC, &SM);
    if (CUR == -2) { pthread_mutex_unlock(&SM); return NULL; }
    w->state = W_RUNNING;
    pthread_mutex_unlock(&SM);
    for (int i = 0; i < PG->nops[w->id]; i++) {
        hop_t *h = &HIST[w->id * MAXOPS + i];
        h->s = PG->ops[w->id][i]; h->thread = w->id; h->done = false;
        h->inv = stamp();
        IN_OP = 1;
        do_op(&CX, &h->s, &h->r);
        IN_OP = 0;
        h->resp = stamp(); h->done = true;
    }
    pthread_mutex_lock(&SM);
    w->state = W_DONE;
    hand_over_and_wait(-1);
    pthread_mutex_unlock(&SM);
    return NULL;
}

static uint64_t VALCTR;
static uint64_t newval(int thread) { VALCTR++; return 0x0101010101010100ULL + ((uint64_t)(thread + 1) << 52) + (VALCTR << 8 | 0x11) * 0x0001000100010001ULL % 0x00ffffffffffULL + VALCTR * 0x0101ULL + 0x0101010101010101ULL; }
/* values must contain no zero byte (tostring) and be unique: build from base-255 digits + 1 */
static uint64_t idval(uint64_t n) { uint64_t v = 0; for (int i = 0; i < 8; i++) { v |= (uint64_t)(1 + n % 255) << (8 * i); n /= 255; } return v; }

/* run one execution of program pg under the current choice prefix / random scheduler */
static int run_execution(program_t *pg, model_t *init, int *total_ops) {
    make(&CX, pg->kind); PG = pg; CUR_MAX = pg->maxsize; if (pg->maxsize) set_max(&CX, pg->maxsize);
    memset(init, 0, sizeof *init);
    /* identical pre-fill */
    for (int i = 0; i < pg->prefill; i++) { opspec_t s; opres_t r; s.key = i % 2; s.val = idval(900000 + (uint64_t)i);
        s.op = is_keyed(pg->kind) ? O_PUT : O_ADDLAST; do_op(&CX, &s, &r);
        hop_t h; h.s = s; h.r = r; model_apply(pg->kind, init, &h); }
    vf_lock_register(CX.mutex);
    NW = pg->nthreads; CHN = 0; DEADLOCK = false; OWNER = -1; CUR = -1; STAMP = 0;
    memset(HIST, 0, sizeof HIST);
    vf_sched_point = sched_cb;
    for (int i = 0; i < NW; i++) { W[i].id = i; W[i].state = W_NEW; pthread_create(&W[i].th, NULL, worker_main, &W[i]); }
    pthread_mutex_lock(&SM);
    for (int i = 0; i < NW; i++) while (W[i].state == W_NEW) pthread_cond_wait(&SC, &SM);
    hand_over_and_wait(-1);
    pthread_mutex_unlock(&SM);
    for (int i = 0; i < NW; i++) pthread_join(W[i].th, NULL);
    vf_sched_point = NULL;
    vf_lock_unregister_all();
    /* collect the history + final contents as a last read-all operation */
    NH = 0; hop_t H[MAXW * MAXOPS + 2];
    for (int t = 0; t < NW; t++) for (int i = 0; i < pg->nops[t]; i++) H[NH++] = HIST[t * MAXOPS + i];
    int rc = 1;
    if (DEADLOCK) rc = -2;
    else {
        hop_t fin; memset(&fin, 0, sizeof fin); fin.thread = 9; fin.s.op = is_keyed(pg->kind) ? O_WALK : O_TOARRAY; fin.inv = stamp(); fin.done = true;
        if (pg->kind == K_QUEUE || pg->kind == K_STACK) {   /* no flattening accessor: read through the underlying list */
            qlist_t *l = pg->kind == K_QUEUE ? CX.queue->list : CX.stack->list; fin.r.ok = 1; for (qlist_obj_t *o = l->first; o && fin.r.n < MAXSNAP; o = o->next) { memcpy(&fin.r.snap[fin.r.n], o->data, 8); fin.r.n++; }
        } else do_op(&CX, &fin.s, &fin.r);
        fin.resp = stamp(); H[NH++] = fin;
    }
    memcpy(HIST, H, sizeof(hop_t) * (size_t)NH);
    *total_ops = NH;
    if (rc != -2) destroy(&CX);     /* a held lock can not be destroyed */
    return rc;
}

static const int MAPOPS[] = {O_PUT, O_PUT, O_GET, O_REMOVE, O_REMOVE, O_CLEAR, O_WALK};
static const int MULTIOPS[] = {O_PUT, O_PUT, O_PUT, O_GET, O_REMOVE, O_CLEAR, O_WALK, O_GETMULTI, O_GETMULTI, O_NEXT1, O_NEXT1ANY, O_REMOVE, O_LOAD};
static const int LTBLOPS[] = {O_PUT, O_PUT, O_GET, O_REMOVE, O_REMOVE, O_CLEAR, O_WALK, O_NEXT1, O_NEXT1, O_PUT, O_LOAD};
static const int TREEOPS[] = {O_PUT, O_PUT, O_GET, O_REMOVE, O_REMOVE, O_CLEAR, O_WALK, O_FINDMIN, O_FINDMAX, O_NEAREST, O_PUT, O_REMOVE};
static const int SEQOPS_LIST[] = {O_ADDFIRST, O_ADDLAST, O_ADDLAST, O_POPFIRST, O_POPFIRST, O_POPLAST, O_GETFIRST, O_GETLAST, O_TOARRAY, O_TOSTRING, O_SEQCLEAR, O_ADDAT, O_GETAT, O_POPAT, O_NEXT1, O_REVERSE, O_REMOVEAT, O_RMFIRST, O_RMLAST};
static const int SEQOPS_VEC[] = {O_ADDFIRST, O_ADDLAST, O_ADDLAST, O_POPFIRST, O_POPFIRST, O_POPLAST, O_GETFIRST, O_GETLAST, O_TOARRAY, O_TOARRAY, O_SEQCLEAR, O_ADDAT, O_GETAT, O_POPAT, O_NEXT1, O_REVERSE, O_REMOVEAT, O_SETAT, O_RMFIRST, O_RMLAST, O_RESIZE};
static const int SEQOPS_QS[] = {O_ADDLAST, O_ADDLAST, O_POPFIRST, O_POPFIRST, O_GETFIRST, O_SEQCLEAR};
static int pick_op(int kind, rng_t *r) {
    if (kind == K_TREE) return TREEOPS[rng_below(r, 12)];
    if (kind == K_LISTMULTI) return MULTIOPS[rng_below(r, 13)];
    if (kind == K_LISTTBL) return LTBLOPS[rng_below(r, 11)];
    if (is_map(kind)) return MAPOPS[rng_below(r, 7)];
    if (kind == K_LIST) return SEQOPS_LIST[rng_below(r, 19)];
    if (kind == K_VECTOR) return SEQOPS_VEC[rng_below(r, 21)];
    return SEQOPS_QS[rng_below(r, 6)];
}
static void gen_program(program_t *pg, long pid, rng_t *r) {
    memset(pg, 0, sizeof *pg);
    pg->kind = (int)(pid % NKINDS);
    long shape = (pid / NKINDS) % 4;
    pg->nthreads = shape == 3 ? 3 : 2;
    int per = shape == 0 ? 2 : shape == 1 ? 3 : 2;
    pg->prefill = (int)rng_below(r, 3);
    for (int t = 0; t < pg->nthreads; t++) { pg->nops[t] = (shape == 2 && t == 0) ? 1 : per;
        for (int i = 0; i < pg->nops[t]; i++) { pg->ops[t][i].op = pick_op(pg->kind, r); pg->ops[t][i].key = (int)rng_below(r, 2); pg->ops[t][i].val = idval((uint64_t)(pid * 64 + t * 8 + i + 1)); } }
    /* directed programs first */
    long d = pid / NKINDS;
    if (d == 0 && !is_keyed(pg->kind)) { pg->nthreads = 2; pg->nops[0] = 1; pg->nops[1] = 2; pg->prefill = 1; pg->ops[0][0].op = O_ADDLAST; pg->ops[1][0].op = O_POPFIRST; pg->ops[1][1].op = O_POPFIRST; }
    if (d == 1 && (pg->kind == K_LIST || pg->kind == K_VECTOR)) { pg->nthreads = 2; pg->nops[0] = 1; pg->nops[1] = 2; pg->prefill = 0; pg->ops[0][0].op = O_TOARRAY; pg->ops[1][0].op = O_ADDLAST; pg->ops[1][1].op = O_ADDLAST; }
    if (d == 0 && is_map(pg->kind)) { pg->nthreads = 3; pg->prefill = 1; for (int t = 0; t < 3; t++) { pg->nops[t] = 2; } pg->ops[0][0].op = O_PUT; pg->ops[0][1].op = O_PUT; pg->ops[1][0].op = O_REMOVE; pg->ops[1][1].op = O_GET; pg->ops[2][0].op = O_GET; pg->ops[2][1].op = O_REMOVE; for (int t = 0; t < 3; t++) for (int i = 0; i < 2; i++) pg->ops[t][i].key = 0; }
    if (d == 1 && is_keyed(pg->kind)) { pg->nthreads = 2; pg->prefill = 2; pg->nops[0] = 1; pg->nops[1] = 2; pg->ops[0][0].op = O_WALK; pg->ops[1][0].op = O_PUT; pg->ops[1][1].op = O_REMOVE; pg->ops[1][0].key = 0; pg->ops[1][1].key = 1; }
    if (d >= 2 && d <= 4 && pg->kind == K_TREE) { pg->nthreads = 2; pg->prefill = 2; pg->nops[0] = 1; pg->nops[1] = 2; pg->ops[0][0].op = d == 2 ? O_FINDMIN : d == 3 ? O_FINDMAX : O_NEAREST; pg->ops[0][0].key = 1;
        pg->ops[1][0].op = O_REMOVE; pg->ops[1][0].key = d == 2 ? 0 : 1; pg->ops[1][1].op = O_PUT; pg->ops[1][1].key = d == 2 ? 0 : 1; }
    if (d == 3 && (pg->kind == K_LIST || pg->kind == K_VECTOR)) { pg->nthreads = 2; pg->prefill = 2; pg->nops[0] = 2; pg->nops[1] = 2; pg->ops[0][0].op = O_GETAT; pg->ops[0][0].key = 1; pg->ops[0][1].op = O_ADDAT; pg->ops[0][1].key = 1; pg->ops[1][0].op = O_POPAT; pg->ops[1][0].key = 0; pg->ops[1][1].op = O_POPAT; pg->ops[1][1].key = 1; }
    if (d == 0 && pg->kind == K_LISTMULTI) { pg->nthreads = 2; pg->prefill = 1; pg->nops[0] = 2; pg->nops[1] = 2; pg->ops[0][0].op = O_PUT; pg->ops[0][1].op = O_PUT; pg->ops[1][0].op = O_GETMULTI; pg->ops[1][1].op = O_GETMULTI; for (int t = 0; t < 2; t++) for (int i = 0; i < 2; i++) pg->ops[t][i].key = 0; }
    if (d == 2 && pg->kind == K_LISTMULTI) { pg->nthreads = 2; pg->prefill = 2; pg->nops[0] = 2; pg->nops[1] = 2; pg->ops[0][0].op = O_GETMULTI; pg->ops[0][1].op = O_GET; pg->ops[1][0].op = O_REMOVE; pg->ops[1][1].op = O_PUT; for (int t = 0; t < 2; t++) for (int i = 0; i < 2; i++) pg->ops[t][i].key = 0; }
    if (d == 4 && (pg->kind == K_LIST || pg->kind == K_VECTOR)) { pg->nthreads = 2; pg->prefill = 3; pg->nops[0] = 1; pg->nops[1] = 2; pg->ops[0][0].op = O_REVERSE; pg->ops[1][0].op = O_POPLAST; pg->ops[1][1].op = O_ADDLAST; }
    if (d == 5 && (pg->kind == K_LIST || pg->kind == K_VECTOR)) { pg->nthreads = 2; pg->prefill = 2; pg->nops[0] = 2; pg->nops[1] = 2; pg->ops[0][0].op = O_REMOVEAT; pg->ops[0][0].key = 1; pg->ops[0][1].op = pg->kind == K_VECTOR ? O_SETAT : O_GETAT; pg->ops[0][1].key = 0; pg->ops[1][0].op = O_POPFIRST; pg->ops[1][1].op = O_ADDFIRST; }
    if (d == 6 && pg->kind == K_VECTOR) { pg->nthreads = 2; pg->prefill = 3; pg->nops[0] = 2; pg->nops[1] = 2; pg->ops[0][0].op = O_RESIZE; pg->ops[0][0].key = 0; pg->ops[0][1].op = O_RESIZE; pg->ops[0][1].key = 1; pg->ops[1][0].op = O_ADDLAST; pg->ops[1][1].op = O_TOARRAY; }
    if (d == 6 && pg->kind == K_LIST) { pg->nthreads = 2; pg->prefill = 2; pg->nops[0] = 2; pg->nops[1] = 2; pg->ops[0][0].op = O_RMFIRST; pg->ops[0][1].op = O_RMLAST; pg->ops[1][0].op = O_TOSTRING; pg->ops[1][1].op = O_ADDFIRST; }
    if ((pg->kind == K_LIST || pg->kind == K_QUEUE || pg->kind == K_STACK) && d >= 7 && d % 4 == 3) { pg->maxsize = 2; if (pg->prefill > 2) pg->prefill = 2; }     /* a size limit: concurrent adds at the limit */
    if (d == 7 && (pg->kind == K_LIST || pg->kind == K_QUEUE || pg->kind == K_STACK)) { pg->nthreads = 3; pg->prefill = 1; pg->maxsize = 2; for (int t = 0; t < 3; t++) { pg->nops[t] = 1; pg->ops[t][0].op = O_ADDLAST; } }
    if (d == 4 && pg->kind == K_LISTMULTI) { pg->nthreads = 2; pg->prefill = 1; pg->nops[0] = 1; pg->nops[1] = 2; pg->ops[0][0].op = O_LOAD; pg->ops[1][0].op = O_PUT; pg->ops[1][0].key = 0; pg->ops[1][1].op = O_PUT; pg->ops[1][1].key = 1; }
    if (d == 2 && pg->kind == K_LISTTBL) { pg->nthreads = 2; pg->prefill = 1; pg->nops[0] = 2; pg->nops[1] = 2; pg->ops[0][0].op = O_NEXT1; pg->ops[0][1].op = O_NEXT1; pg->ops[1][0].op = O_PUT; pg->ops[1][1].op = O_PUT; for (int t = 0; t < 2; t++) for (int i = 0; i < 2; i++) pg->ops[t][i].key = 0; }
    if (d == 3 && pg->kind == K_LISTMULTI) { pg->nthreads = 2; pg->prefill = 2; pg->nops[0] = 2; pg->nops[1] = 2; pg->ops[0][0].op = O_NEXT1ANY; pg->ops[0][1].op = O_NEXT1; pg->ops[1][0].op = O_REMOVE; pg->ops[1][1].op = O_PUT; for (int t = 0; t < 2; t++) for (int i = 0; i < 2; i++) pg->ops[t][i].key = 0; }
    if (d == 2 && pg->kind == K_LIST) { pg->nthreads = 2; pg->nops[0] = 1; pg->nops[1] = 2; pg->prefill = 1; pg->ops[0][0].op = O_TOSTRING; pg->ops[1][0].op = O_POPFIRST; pg->ops[1][1].op = O_ADDLAST; }
}
static void program_text(program_t *pg, char *b, size_t bs) {
    int n = snprintf(b, bs, "%s prefill=%d%s: ", KNAME[pg->kind], pg->prefill, pg->maxsize ? " limit=2" : "");
    for (int t = 0; t < pg->nthreads; t++) { n += snprintf(b + n, bs - (size_t)n, "%sT%d{", t ? " || " : "", t);
        for (int i = 0; i < pg->nops[t]; i++) n += snprintf(b + n, bs - (size_t)n, "%s%s%s", i ? ";" : "", ONAME[pg->ops[t][i].op], (pg->ops[t][i].op <= O_REMOVE || pg->ops[t][i].op == O_NEAREST || pg->ops[t][i].op == O_GETMULTI || (pg->ops[t][i].op == O_NEXT1 && is_keyed(pg->kind))) ? (pg->ops[t][i].key ? "(k1)" : "(k0)") : ((pg->ops[t][i].op >= O_ADDAT && pg->ops[t][i].op <= O_POPAT) || pg->ops[t][i].op == O_REMOVEAT || pg->ops[t][i].op == O_SETAT || pg->ops[t][i].op == O_RESIZE) ? (pg->ops[t][i].key ? "(@1)" : "(@0)") : "");
        n += snprintf(b + n, bs - (size_t)n, "}"); }
}

static void check_history(program_t *pg, model_t *init, int nh, const char *mode) {
    int order[64];
    int lr = linearizable(pg->kind, HIST, nh, init, order);
    uint64_t hh = VF_H0 + (uint64_t)pg->kind; for (int i = 0; i < nh; i++) { hh = vf_hash(&HIST[i].r.ok, sizeof(int), hh); hh = vf_hash(&HIST[i].r.val, 8, hh); hh = vf_hash(HIST[i].r.snap, (size_t)(HIST[i].r.n > 0 ? HIST[i].r.n : 0) * 8, hh); }
    vf_distinct("distinct_outcomes", hh ^ (uint64_t)vf_cur_case * 0x9E3779B97F4A7C15ULL);
    if (lr == 1) { vf_count("histories_linearizable", 1); return; }
    if (lr < 0) { vf_count("linearizability_inconclusive", 1); return; }
    char pt[400]; program_text(pg, pt, sizeof pt);
    vf_log("program: %s", pt);
    { char cb[600]; int n = 0; for (int i = 0; i < CHN && n < 560; i++) n += snprintf(cb + n, sizeof cb - (size_t)n, "%d/%d ", CH[i], NEN[i]); vf_log("schedule choices (%s): %s", mode, cb); }
    for (int i = 0; i < nh; i++) { char b[500]; describe(b, sizeof b, &HIST[i]); vf_log("%s", b); }
    char key[120]; snprintf(key, sizeof key, "not-linearizable:%s", KNAME[pg->kind]);
    vf_viol("C13", key, "history of program [%s] has no linearization consistent with real time (see oplog)", pt);
}

static void controlled_program(long pid, long budget) {
    rng_t pr; rng_seed(&pr, VF.seed, (uint64_t)pid * 7919 + 13);
    program_t pg; gen_program(&pg, pid, &pr);
    char pt[400]; program_text(&pg, pt, sizeof pt);
    vf_case_begin(pid, "controlled: %s", pt);
    long execs = 0; bool exhaustive = false;
    PREFIXN = 0; RANDOM_SCHED = false;
    model_t init; int nh;
    while (execs < budget) {
        vf_case_begin(pid, "controlled DFS exec#%ld: %s", execs, pt);
        int rc = run_execution(&pg, &init, &nh);
        execs++; vf_count("evaluations", 1); vf_count("schedules_executed", 1);
        { uint64_t sh = VF_H0 + (uint64_t)pid; for (int i = 0; i < CHN; i++) sh = sh * 1099511628211ULL ^ (uint64_t)(CH[i] + 1); vf_distinct("distinct", sh); }
        if (rc == -2) { vf_viol("C13", "deadlock", "no worker can run: the container lock is held by a thread that is not running (program %s)", pt); vf_abort_case(); }
        else check_history(&pg, &init, nh, "dfs");
        vf_max("max_choice_points_in_one_execution", CHN);
        /* next schedule in depth-first order */
        int d = CHN - 1;
        while (d >= 0 && CH[d] + 1 >= NEN[d]) d--;
        if (d < 0) { exhaustive = true; break; }
        CH[d]++; PREFIXN = d + 1;
        if (vf_nviol >= 20) break;
    }
    vf_count("programs", 1);
    if (exhaustive) { vf_count("programs_enumerated_exhaustively", 1); vf_max("max_schedules_of_an_exhaustive_program", execs); }
    else {
        vf_count("programs_sampled_randomly", 1);
        RANDOM_SCHED = true; rng_seed(&SR, VF.seed, (uint64_t)pid * 31 + 7);
        for (long i = 0; i < budget && vf_nviol < 20; i++) {
            vf_case_begin(pid, "controlled random exec#%ld: %s", i, pt);
            int rc = run_execution(&pg, &init, &nh);
            vf_count("evaluations", 1); vf_count("schedules_executed", 1);
            { uint64_t sh = VF_H0 + (uint64_t)pid; for (int k = 0; k < CHN; k++) sh = sh * 1099511628211ULL ^ (uint64_t)(CH[k] + 1); vf_distinct("distinct", sh); }
            if (rc == -2) { vf_viol("C13", "deadlock", "no worker can run (program %s)", pt); vf_abort_case(); } else check_history(&pg, &init, nh, "random");
        }
        RANDOM_SCHED = false;
    }
    if (pid < 2 * NKINDS) vf_sample("program #%ld: %s -> %ld schedules%s", pid, pt, execs, exhaustive ? " (all)" : " (DFS budget reached, plus random schedules)");
}

/* ============================================================ stress mode ===================== */
#define SMAXT 8
#define SMAXOPS 64
static program_t dummy_pg;
static hop_t SH[SMAXT][SMAXOPS]; static int SN[SMAXT]; static int S_NT, S_OPS, S_KIND; static long S_CASE;
static __thread rng_t TR;
static void stress_cb(int point, void *m) {
    (void)m; (void)point;
    if (MYID < 0 || !IN_OP) return;
    uint32_t c = rng_below(&TR, 100);
    if (c < 12) sched_yield(); else if (c < 16) __real_usleep(rng_below(&TR, 200));
}
static pthread_barrier_t SBAR;
static void *stress_main(void *arg) {
    int id = (int)(intptr_t)arg; MYID = id;
    rng_seed(&TR, VF.seed, (uint64_t)S_CASE * 64 + (uint64_t)id + 1000003);
    pthread_barrier_wait(&SBAR);
    for (int i = 0; i < S_OPS; i++) {
        hop_t *h = &SH[id][i]; memset(h, 0, sizeof *h);
        h->thread = id; h->s.op = pick_op(S_KIND, &TR); h->s.key = (int)rng_below(&TR, S_KIND == K_TREE ? 3 : 2);
        if (h->s.op == O_WALK && rng_chance(&TR, 2, 3)) h->s.op = O_GET;
#ifndef __SANITIZE_THREAD__
        if (h->s.op == O_REMOVEAT || h->s.op == O_SETAT || h->s.op == O_RMFIRST || h->s.op == O_RMLAST || h->s.op == O_RESIZE) h->s.op = O_GETAT;      /* they drop a value without returning it: the conservation rules of the plain stress run cannot account for that; controlled schedules and the TSan run keep them */
#endif
        if ((h->s.op == O_CLEAR || h->s.op == O_SEQCLEAR) && rng_chance(&TR, 3, 4)) h->s.op = is_keyed(S_KIND) ? O_PUT : O_ADDLAST;
        h->s.val = idval((uint64_t)(id + 1) * 100000 + (uint64_t)i + 1);
        h->inv = stamp();
        IN_OP = 1; do_op(&CX, &h->s, &h->r); IN_OP = 0;
        h->resp = stamp(); h->done = true;
        SN[id] = i + 1;
    }
    return NULL;
}
/* per-key sub-history of a map history is checked separately (P-compositionality);
 * clear() and locked walks touch all keys: they are projected onto each key */
static int check_map_history(int kind, hop_t *all, int n, hop_t *fin) {
    int worst = 1;
    for (int k = 0; k < NKEYS; k++) {
        hop_t sub[SMAXT * SMAXOPS + 1]; int m = 0;
        for (int i = 0; i < n; i++) {
            hop_t h = all[i];
            if (h.s.op == O_CLEAR) { h.s.op = O_REMOVE; h.s.key = k; h.r.ok = -1; }     /* projected: remove with unknown result */
            else if (kind == K_LISTMULTI && h.s.op == O_WALK) { if (h.r.n < 0) return -1; int w = 0; for (int j = 0; j < h.r.n; j++) if ((int)h.r.keys[j] == k) h.r.snap[w++] = h.r.snap[j]; h.r.n = w; h.s.op = O_GETMULTI; h.s.key = k; }
            else if (kind == K_LISTMULTI && h.s.op == O_GETMULTI && h.r.n < 0) return -1;
            else if (h.s.op == O_WALK) { int f = -1; for (int j = 0; j < h.r.n; j++) if ((int)h.r.keys[j] == k) f = j; h.s.op = O_GET; h.s.key = k; h.r.ok = f >= 0; h.r.val = f >= 0 ? h.r.snap[f] : 0; }
            else if (h.s.op == O_LOAD) { if (k < 2) continue; h.s.op = O_PUT; h.s.key = k; h.s.val = LOADV[k - 2]; h.r.ok = h.r.ok ? 1 : 0; sub[m++] = h; continue; }
            else if (h.s.op == O_FINDMIN || h.s.op == O_FINDMAX || h.s.op == O_NEAREST || h.s.op == O_NEXT1ANY) continue;
            else if (h.s.op == O_NEXT1 && h.s.key == k) { if (h.r.ok && (int)h.r.keys[0] != k) { h.r.val = ~0ULL; } h.s.op = O_GET; sub[m++] = h; continue; }   /* touch every key: judged by check_ordered_lookups */
            else if (h.s.key != k) continue;
            sub[m++] = h;
        }
        if (kind == K_LISTMULTI) { hop_t h = *fin; if (h.r.n < 0) return -1; int w = 0; for (int j = 0; j < h.r.n; j++) if ((int)h.r.keys[j] == k) h.r.snap[w++] = h.r.snap[j]; h.r.n = w; h.s.op = O_GETMULTI; h.s.key = k; sub[m++] = h; }
        else { hop_t h = *fin; int f = -1; for (int j = 0; j < h.r.n; j++) if ((int)h.r.keys[j] == k) f = j; h.s.op = O_GET; h.s.key = k; h.r.ok = f >= 0; h.r.val = f >= 0 ? h.r.snap[f] : 0; sub[m++] = h; }
        if (m > 60) { /* keep the search tractable: too many operations on one key */ worst = worst == 0 ? 0 : -1; continue; }
        model_t init; memset(&init, 0, sizeof init); int order[64];
        int r = linearizable(kind, sub, m, &init, order);
        if (r == 0) { for (int i = 0; i < m; i++) { char b[400]; describe(b, sizeof b, &sub[i]); vf_log("key k%d: %s", k, b); } return 0; }
        if (r < 0) worst = -1;
    }
    return worst;
}
/* tree: find_min/find_max/find_nearest results must name a key, and (nearest) a value, that some put invoked before the response stored */
static const char *check_ordered_lookups(int kind, hop_t *all, int n) {
    for (int i = 0; i < n; i++) { hop_t *g = &all[i]; if (g->s.op != O_FINDMIN && g->s.op != O_FINDMAX && g->s.op != O_NEAREST && g->s.op != O_NEXT1ANY) continue;
        vf_count("stress_ordered_lookups_checked", 1);
        if (!g->r.ok) continue;
        if (g->r.keys[0] >= NKEYS) return "an ordered lookup returned a key that was never stored (torn or freed name)";
        bool okk = false; for (int k = 0; k < n; k++) if (all[k].s.op == O_LOAD && g->r.keys[0] >= 2 && g->r.keys[0] <= 3 && all[k].inv < g->resp && (g->s.op == O_FINDMIN || g->s.op == O_FINDMAX || g->r.val == LOADV[g->r.keys[0] - 2])) okk = true;
        for (int k = 0; k < n; k++) if (all[k].s.op == O_PUT && (uint64_t)all[k].s.key == g->r.keys[0] && all[k].inv < g->resp && ((g->s.op != O_NEAREST && g->s.op != O_NEXT1 && g->s.op != O_NEXT1ANY) || all[k].s.val == g->r.val)) okk = true;
        if (!okk) return g->s.op == O_NEAREST ? "find_nearest returned a key/value pair that no put invoked before it stored" : "find_min/max returned a key that no put invoked before it stored"; }
    return NULL;
}
/* sequences: conservation and order rules over unique values */
static const char *check_seq_history(int kind, hop_t *all, int n, hop_t *fin) {
    /* every value popped or finally present must have been added (successfully) exactly once; nothing popped twice;
     * nothing popped before its add was invoked; no successful add lost unless a clear() may have removed it */
    bool has_clear = false; for (int i = 0; i < n; i++) if (all[i].s.op == O_SEQCLEAR) has_clear = true;
    for (int i = 0; i < n; i++) {
        hop_t *p = &all[i];
        if (!is_pop(p->s.op) || !p->r.ok) continue;
        int adder = -1; for (int j = 0; j < n; j++) if (is_add(all[j].s.op) && all[j].s.val == p->r.val) adder = j;
        if (adder < 0) return "a pop returned a value that no thread added";
        if (!all[adder].r.ok) return "a pop returned a value whose add had been refused";
        if (all[adder].inv > p->resp) return "a pop returned a value before its add was invoked";
        for (int j = i + 1; j < n; j++) if (is_pop(all[j].s.op) && all[j].r.ok && all[j].r.val == p->r.val) return "the same value was popped twice (duplicated element)";
        for (int j = 0; j < fin->r.n; j++) if (fin->r.snap[j] == p->r.val) return "a popped value is still in the container (duplicated element)";
    }
    if (CUR_MAX && fin->r.n > CUR_MAX) return "the container holds more elements than its limit allows";
    if (CUR_MAX) { long okadds = 0, okpops = 0; for (int i = 0; i < n; i++) { if (is_add(all[i].s.op) && all[i].r.ok) okadds++; if (is_pop(all[i].s.op) && all[i].r.ok) okpops++; } if (!has_clear && okadds - okpops != fin->r.n) return "successful adds minus successful pops differ from the final length (an add beyond the limit was accepted or an element was lost)"; }
    for (int j = 0; j < fin->r.n; j++) { int adder = -1; for (int i = 0; i < n; i++) if (is_add(all[i].s.op) && all[i].s.val == fin->r.snap[j]) adder = i;
        if (adder < 0) return "the final contents hold a value that no thread added";
        for (int k = j + 1; k < fin->r.n; k++) if (fin->r.snap[k] == fin->r.snap[j]) return "the final contents hold a value twice"; }
    if (!has_clear) for (int i = 0; i < n; i++) { hop_t *a = &all[i]; if (!is_add(a->s.op) || !a->r.ok) continue;
        bool found = false; for (int j = 0; j < fin->r.n; j++) if (fin->r.snap[j] == a->s.val) found = true;
        for (int j = 0; j < n; j++) if (is_pop(all[j].s.op) && all[j].r.ok && all[j].r.val == a->s.val) found = true;
        if (!found) return "a successfully added value was neither popped nor present at the end (lost update)"; }
    /* snapshots: toarray/tostring must contain no duplicates and only values whose add was invoked before the snapshot responded */
    for (int i = 0; i < n; i++) { hop_t *s = &all[i]; if (s->s.op != O_TOARRAY && s->s.op != O_TOSTRING) continue;
        if (s->r.n < 0) return "a flattening returned a torn element";
        for (int j = 0; j < s->r.n; j++) { int adder = -1; for (int k = 0; k < n; k++) if (is_add(all[k].s.op) && all[k].s.val == s->r.snap[j]) adder = k;
            if (adder < 0) return "a flattening contains a value that no thread added"; if (all[adder].inv > s->resp) return "a flattening contains a value from the future";
            for (int k = j + 1; k < s->r.n; k++) if (s->r.snap[k] == s->r.snap[j]) return "a flattening contains a value twice (not a snapshot)"; } }
    /* copying reads: the value must have been added by a call invoked before the read responded */
    for (int i = 0; i < n; i++) { hop_t *g = &all[i]; if (!is_seqget(g->s.op) || !g->r.ok) continue;
        int adder = -1; for (int k = 0; k < n; k++) if (is_add(all[k].s.op) && all[k].s.val == g->r.val) adder = k;
        if (adder < 0) return "a copying get returned a value that no thread added"; if (all[adder].inv > g->resp) return "a copying get returned a value from the future"; }
    /* queue: FIFO per producer - values of one producer are popped in the order they were pushed */
    if (kind == K_QUEUE && !has_clear) for (int i = 0; i < n; i++) for (int j = 0; j < n; j++) {
        hop_t *a = &all[i], *b = &all[j];
        if (a->thread != b->thread || a->s.op != O_ADDLAST || b->s.op != O_ADDLAST || !a->r.ok || !b->r.ok || !(a->resp < b->inv)) continue;   /* refused pushes (size limit) were never queued */   /* a pushed before b by the same producer */
        hop_t *pa = NULL, *pb = NULL; for (int k = 0; k < n; k++) if (all[k].s.op == O_POPFIRST && all[k].r.ok) { if (all[k].r.val == a->s.val) pa = &all[k]; if (all[k].r.val == b->s.val) pb = &all[k]; }
        if (pb && !pa) return "queue: a later element of a producer was popped while an earlier one is still queued";
        if (pa && pb && pb->resp < pa->inv) return "queue: elements of one producer were popped out of order"; }
    return NULL;
}

/* ---- long hold: one thread sits inside lock() ... unlock() (two walks with a pause between them) for longer than the lock
 * macro's whole wait budget (5000 failed polls) while another thread calls a mutating operation.  The operation must not
 * complete before the holder's unlock(), and both walks must see the same contents. ------------------------------------- */
static ctx_t LHC; static volatile int LH_done; static opspec_t LH_op;
static void *lh_writer(void *a) { (void)a; opres_t r; do_op(&LHC, &LH_op, &r); __atomic_store_n(&LH_done, 1, __ATOMIC_SEQ_CST); return NULL; }
static void lh_lock(ctx_t *c, bool lock) {
    switch (c->kind) {
    case K_TREE: lock ? c->tree->lock(c->tree) : c->tree->unlock(c->tree); break; case K_HASH: lock ? c->hash->lock(c->hash) : c->hash->unlock(c->hash); break;
    case K_LISTTBL: case K_LISTMULTI: lock ? c->ltbl->lock(c->ltbl) : c->ltbl->unlock(c->ltbl); break; case K_LIST: lock ? c->list->lock(c->list) : c->list->unlock(c->list); break;
    case K_QUEUE: lock ? c->queue->list->lock(c->queue->list) : c->queue->list->unlock(c->queue->list); break; case K_STACK: lock ? c->stack->list->lock(c->stack->list) : c->stack->list->unlock(c->stack->list); break;
    case K_VECTOR: lock ? c->vec->lock(c->vec) : c->vec->unlock(c->vec); break; }
}
static void lh_snapshot(ctx_t *c, opres_t *w) {
    if (c->kind == K_QUEUE || c->kind == K_STACK) { memset(w, 0, sizeof *w); qlist_t *l = c->kind == K_QUEUE ? c->queue->list : c->stack->list; for (qlist_obj_t *o = l->first; o && w->n < MAXSNAP; o = o->next) { memcpy(&w->snap[w->n], o->data, 8); w->n++; } return; }
    opspec_t ws = {is_keyed(c->kind) ? O_WALK : O_TOARRAY, 0, 0}; do_op(c, &ws, w);
}
static void long_hold(long caseno) {
    int kind = (int)(caseno % NKINDS);
    vf_case_begin(caseno, "long hold: %s holder walks twice inside lock()..unlock() while a writer exhausts the lock-wait budget", KNAME[kind]);
    make(&LHC, kind); vf_lock_register(LHC.mutex);
    for (int i = 0; i < 3; i++) { opspec_t s = {is_keyed(kind) ? O_PUT : O_ADDLAST, i, 0x4141414141414100ULL + (uint64_t)i + 1}; opres_t r; do_op(&LHC, &s, &r); }
    LH_op = (opspec_t){is_keyed(kind) ? O_PUT : O_ADDLAST, 5, 0x4242424242424242ULL}; LH_done = 0;
    opres_t w1, w2;
    int fast = vf_usleep_fast; vf_usleep_fast = 1;
    lh_lock(&LHC, true);
    lh_snapshot(&LHC, &w1);
    long busy0 = vf_trylock_busy, spins = 0;
    pthread_t t; pthread_create(&t, NULL, lh_writer, NULL);
    while (vf_trylock_busy - busy0 < 12000 && !LH_done && spins++ < 30000000L) sched_yield();   /* a library that blocks instead of polling never gets there: counted, not judged */
    bool reached = vf_trylock_busy - busy0 >= 12000;
    int early = __atomic_load_n(&LH_done, __ATOMIC_SEQ_CST);
    lh_snapshot(&LHC, &w2);
    lh_lock(&LHC, false);
    pthread_join(t, NULL);
    vf_usleep_fast = fast;
    vf_count("evaluations", 1); vf_count("long_hold_scenarios", 1); if (!reached && !early) vf_count("long_hold_budget_not_reached", 1);
    vf_distinct("distinct", 0x77000000ULL + (uint64_t)kind);
    char key[96];
    if (early) { snprintf(key, sizeof key, "mutual-exclusion:%s", KNAME[kind]); vf_viol("C13", key, "%s: another thread's %s completed while the holder was still inside lock()..unlock() (after %ld failed lock polls)", KNAME[kind], ONAME[LH_op.op], vf_trylock_busy - busy0); }
    else if (w1.n != w2.n || memcmp(w1.snap, w2.snap, sizeof(uint64_t) * (size_t)(w1.n > 0 ? w1.n : 0))) { snprintf(key, sizeof key, "locked-walk-snapshot:%s", KNAME[kind]); vf_viol("C13", key, "%s: two walks inside one lock()..unlock() saw %d and %d elements / different contents", KNAME[kind], w1.n, w2.n); }
    vf_lock_unregister_all(); destroy(&LHC);
}

static void stress_case(long caseno) {
    rng_seed(&R, VF.seed, (uint64_t)caseno);
    S_KIND = (int)(caseno % NKINDS); S_NT = 4 + (int)rng_below(&R, 5); S_OPS = 10 + (int)rng_below(&R, (uint32_t)(400 / S_NT - 9)); if (S_OPS > SMAXOPS) S_OPS = SMAXOPS; S_CASE = caseno;
    if (is_keyed(S_KIND) && S_NT * S_OPS > 56) S_OPS = 56 / S_NT;
    vf_case_begin(caseno, "stress: %s threads=%d ops/thread=%d", KNAME[S_KIND], S_NT, S_OPS);
    make(&CX, S_KIND); STAMP = 0;
    CUR_MAX = ((S_KIND == K_LIST || S_KIND == K_QUEUE || S_KIND == K_STACK) && (caseno / NKINDS) % 3 == 1) ? 3 : 0; if (CUR_MAX) set_max(&CX, CUR_MAX);
    vf_lock_register(CX.mutex);
    vf_sched_point = stress_cb;
    pthread_barrier_init(&SBAR, NULL, (unsigned)S_NT);
    pthread_t th[SMAXT];
    memset(SN, 0, sizeof SN);
    for (int i = 0; i < S_NT; i++) pthread_create(&th[i], NULL, stress_main, (void *)(intptr_t)i);
    for (int i = 0; i < S_NT; i++) pthread_join(th[i], NULL);
    pthread_barrier_destroy(&SBAR);
    vf_sched_point = NULL; vf_lock_unregister_all();
    hop_t *all = hm_alloc(sizeof(hop_t) * (size_t)(S_NT * S_OPS + 1)); int n = 0;
    for (int t = 0; t < S_NT; t++) for (int i = 0; i < SN[t]; i++) all[n++] = SH[t][i];
    hop_t fin; memset(&fin, 0, sizeof fin); fin.thread = 99; fin.inv = stamp(); fin.done = true; fin.s.op = is_keyed(S_KIND) ? O_WALK : O_TOARRAY;
    if (S_KIND == K_QUEUE || S_KIND == K_STACK) { qlist_t *l = S_KIND == K_QUEUE ? CX.queue->list : CX.stack->list; for (qlist_obj_t *o = l->first; o && fin.r.n < MAXSNAP; o = o->next) { memcpy(&fin.r.snap[fin.r.n], o->data, 8); fin.r.n++; } if (l->num > MAXSNAP) fin.r.n = -2; }
    else if (S_KIND == K_LIST) { for (qlist_obj_t *o = CX.list->first; o && fin.r.n < MAXSNAP; o = o->next) { memcpy(&fin.r.snap[fin.r.n], o->data, 8); fin.r.n++; } if (CX.list->num > MAXSNAP) fin.r.n = -2; }
    else if (S_KIND == K_VECTOR) { if (CX.vec->num > MAXSNAP) fin.r.n = -2; else { fin.r.n = (int)CX.vec->num; memcpy(fin.r.snap, CX.vec->data, CX.vec->num * 8); } }
    else do_op(&CX, &fin.s, &fin.r);
    fin.resp = stamp();
    vf_count("evaluations", n); vf_count("stress_histories", 1); vf_count("stress_operations", n);
    uint64_t hh = VF_H0 + (uint64_t)caseno; for (int i = 0; i < n; i++) { hh = vf_hash(&all[i].r.ok, sizeof(int), hh); hh = vf_hash(&all[i].r.val, 8, hh); }
    vf_distinct("distinct", hh); vf_distinct("distinct_outcomes", hh);
#ifndef __SANITIZE_THREAD__
    if (fin.r.n == -2) vf_count("stress_histories_final_too_long_skipped", 1);
    else if (is_keyed(S_KIND)) {
        int r = check_map_history(S_KIND, all, n, &fin);
        const char *why = (S_KIND == K_TREE || S_KIND == K_LISTMULTI) ? check_ordered_lookups(S_KIND, all, n) : NULL;
        if (why) { for (int i = 0; i < n && i < 200; i++) { char b[400]; describe(b, sizeof b, &all[i]); vf_log("%s", b); } { char key[100]; snprintf(key, sizeof key, "stress-ordered-lookup:%s", KNAME[S_KIND]); vf_viol("C13", key, "stress history (%d threads x %d ops): %s", S_NT, S_OPS, why); } }
        if (r == 0) { char key[100]; snprintf(key, sizeof key, "stress-not-linearizable:%s", KNAME[S_KIND]); vf_viol("C13", key, "stress history (%d threads x %d ops) has a key whose sub-history is not linearizable", S_NT, S_OPS); }
        else vf_count(r > 0 ? "stress_histories_linearizable" : "stress_histories_inconclusive", 1);
    } else {
        const char *why = check_seq_history(S_KIND, all, n, &fin);
        if (why) { for (int i = 0; i < n && i < 200; i++) { char b[400]; describe(b, sizeof b, &all[i]); vf_log("%s", b); } { char b[600]; describe(b, sizeof b, &fin); vf_log("final: %s", b); }
            char key[100]; snprintf(key, sizeof key, "stress-conservation:%s", KNAME[S_KIND]); vf_viol("C13", key, "stress history (%d threads x %d ops): %s", S_NT, S_OPS, why); }
        else vf_count("stress_histories_conserved", 1);
    }
#else
    vf_count("stress_histories_raced_under_tsan", 1);
#endif
    hm_free(all);
    destroy(&CX);
    if (caseno < NKINDS) vf_sample("stress history #%ld: %s, %d threads x %d ops with injected delays at lock/allocator points, unique values", caseno, KNAME[S_KIND], S_NT, S_OPS);
    (void)dummy_pg; (void)newval;
}

int main(int argc, char **argv) {
    vf_init(argc, argv, "h_conc");
    if (strcmp(VF.prop, "C13")) { fprintf(stderr, "h_conc: unsupported property %s\n", VF.prop); return 2; }
    { int fd = memfd_create("h_conc-load", 0); if (fd < 0) { fprintf(stderr, "h_conc: memfd_create failed\n"); return 2; }
      static const char doc[] = "k2=LOADval1\nk3=LOADval2\n"; if (write(fd, doc, sizeof doc - 1) != (ssize_t)(sizeof doc - 1)) return 2;
      snprintf(LOADPATH, sizeof LOADPATH, "/proc/self/fd/%d", fd); memcpy(&LOADV[0], "LOADval1", 8); memcpy(&LOADV[1], "LOADval2", 8); }
    bool stress = !strcmp(VF.mode, "stress");
    long ncases = vf_arg_long("cases", 112);
    long budget = vf_arg_long("budget", 3000);
    if (!stress) for (long c = 5000000; c < 5000000 + NKINDS; c++) if (vf_mine(c)) { vf_wall_arm(600); long_hold(c); vf_wall_disarm(); }
    for (long c = 0; c < ncases; c++) { if (!vf_mine(c)) continue; vf_wall_arm(stress ? 120 : 600); if (stress) stress_case(c); else controlled_program(c, budget); vf_wall_disarm(); }
    return vf_finish() ? 1 : 0;
}
