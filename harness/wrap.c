/* wrap.c - link-time interposers (-Wl,--wrap=...) for the library's allocator
 * calls: allocation ledger, failpoints, per-call budgets.  The harness's own
 * allocations use __real_malloc & co. and never appear here.
 */
#define _GNU_SOURCE
#include "vfc.h"
#include <stdlib.h>
#include <string.h>
#include <errno.h>
#include <stdio.h>

volatile long vf_alloc_calls, vf_fail_at, vf_fail_from, vf_fail_hits;
/* errno noise: a SUCCESSFUL allocation leaves errno = ENOMEM behind, as glibc's malloc does when brk() fails and it falls back to mmap();
 * results derived from errno after a successful allocation become visible */
volatile int vf_errno_noise; volatile long vf_errno_noise_hits;
#define NOISE(p) do { if (vf_errno_noise && (p)) { errno = ENOMEM; vf_errno_noise_hits++; } } while (0)
volatile long vf_alloc_budget, vf_bytes_budget;
volatile int vf_budget_tripped;
volatile long vf_foreign_frees;
void vf_budget_abort(int which);
/* scheduling hook (schedule injector of C13): called at every library allocator call */
void (*volatile vf_sched_point)(int point, void *mutex);
#define VF_PT_ALLOC_ 5
static inline void sched_alloc_point(void) { void (*sp)(int, void *) = vf_sched_point; if (sp) sp(VF_PT_ALLOC_, NULL); }

char *__real_strdup(const char *);

/* ---- ledger -------------------------------------------------------------- */
typedef struct { void *p; size_t size; long seq; } lent_t;
static lent_t *ltab; static size_t lcap, lcount, ltomb;
static long lseq, lbytes;
static bool lon;
static volatile int llock;
#define TOMB ((void *)1)
static inline void L(void) { while (__atomic_exchange_n(&llock, 1, __ATOMIC_ACQUIRE)) ; }
static inline void U(void) { __atomic_store_n(&llock, 0, __ATOMIC_RELEASE); }

void vf_ledger_enable(bool on) { lon = on; }
static size_t lslot(const void *p) { return (size_t)(((uintptr_t)p >> 4) * 0x9E3779B97F4A7C15ULL >> 24); }
static void lgrow(void) {
    size_t ocap = lcap; lent_t *ot = ltab;
    lcap = ocap ? ((lcount * 4 >= ocap) ? ocap * 2 : ocap) : 4096;
    ltab = (lent_t *)__real_calloc(lcap, sizeof(lent_t));
    if (!ltab) _exit(2);
    lcount = 0; ltomb = 0;
    for (size_t i = 0; i < ocap; i++)
        if (ot[i].p && ot[i].p != TOMB) {
            size_t k = lslot(ot[i].p) & (lcap - 1);
            while (ltab[k].p) k = (k + 1) & (lcap - 1);
            ltab[k] = ot[i]; lcount++;
        }
    __real_free(ot);
}
static void ladd(void *p, size_t size) {
    if (!lon || !p) return;
    L();
    if ((lcount + ltomb + 1) * 10 >= lcap * 6) lgrow();
    size_t k = lslot(p) & (lcap - 1);
    while (ltab[k].p && ltab[k].p != TOMB) k = (k + 1) & (lcap - 1);
    if (ltab[k].p == TOMB) ltomb--;
    ltab[k].p = p; ltab[k].size = size; ltab[k].seq = ++lseq; lcount++; lbytes += (long)size;
    U();
}
static lent_t *lfind(const void *p) {
    if (!lcap) return NULL;
    size_t k = lslot(p) & (lcap - 1);
    while (ltab[k].p) { if (ltab[k].p == p) return &ltab[k]; k = (k + 1) & (lcap - 1); }
    return NULL;
}
static bool ldel(void *p) {
    if (!lon) return true;
    L();
    lent_t *e = lfind(p);
    if (e) { lbytes -= (long)e->size; e->p = TOMB; lcount--; ltomb++; }
    U();
    return e != NULL;
}
long vf_ledger_live(void) { return (long)lcount; }
long vf_ledger_live_bytes(void) { return lbytes; }
long vf_ledger_mark(void) { return lseq; }
long vf_ledger_live_since(long mark) {
    long n = 0;
    L();
    for (size_t i = 0; i < lcap; i++) if (ltab[i].p && ltab[i].p != TOMB && ltab[i].seq > mark) n++;
    U();
    return n;
}
void vf_ledger_dump_since(long mark, int max) {
    for (size_t i = 0; i < lcap && max > 0; i++)
        if (ltab[i].p && ltab[i].p != TOMB && ltab[i].seq > mark) {
            fprintf(stderr, "  live block %p size %zu seq %ld\n", ltab[i].p, ltab[i].size, ltab[i].seq); max--;
        }
}
bool vf_ledger_has(const void *p) { L(); bool r = lfind(p) != NULL; U(); return r; }
size_t vf_ledger_size(const void *p) { L(); lent_t *e = lfind(p); size_t r = e ? e->size : 0; U(); return r; }

/* ---- failpoints ---------------------------------------------------------- */
/* a harness may define vf_budget_abort() to turn a tripped per-call budget into a recorded non-termination event */
__attribute__((weak)) void vf_budget_abort(int which) { (void)which; }
static bool should_fail(size_t want) {
    long n = __atomic_add_fetch(&vf_alloc_calls, 1, __ATOMIC_RELAXED);
    if ((vf_fail_at && n == vf_fail_at) || (vf_fail_from && n >= vf_fail_from)) {
        vf_fail_hits++;
        return true;
    }
    if (vf_alloc_budget > 0 && n > vf_alloc_budget) { vf_budget_tripped = 1; vf_budget_abort(1); return true; }
    if (vf_bytes_budget > 0 && lbytes + (long)want > vf_bytes_budget) { vf_budget_tripped = 2; vf_budget_abort(2); return true; }
    return false;
}

void *__wrap_malloc(size_t n) {
    sched_alloc_point();
    if (should_fail(n)) { errno = ENOMEM; return NULL; }
    void *p = __real_malloc(n);
    ladd(p, n);
    NOISE(p);
    return p;
}
void *__wrap_calloc(size_t a, size_t b) {
    sched_alloc_point();
    if (should_fail(a * b)) { errno = ENOMEM; return NULL; }
    void *p = __real_calloc(a, b);
    ladd(p, a * b);
    NOISE(p);
    return p;
}
void *__wrap_realloc(void *old, size_t n) {
    sched_alloc_point();
    if (should_fail(n)) { errno = ENOMEM; return NULL; }
    if (old && lon && !vf_ledger_has(old)) vf_foreign_frees++;
    size_t osz = old ? vf_ledger_size(old) : 0; (void)osz;
    if (old) ldel(old);
    void *p = __real_realloc(old, n);
    if (p) ladd(p, n);
    else if (old) ladd(old, osz);
    NOISE(p);
    return p;
}
char *__wrap_strdup(const char *s) {
    sched_alloc_point();
    size_t n = strlen(s) + 1;
    if (should_fail(n)) { errno = ENOMEM; return NULL; }
    char *p = __real_strdup(s);
    ladd(p, n);
    NOISE(p);
    return p;
}
void __wrap_free(void *p) {
    sched_alloc_point();
    if (p && lon && !ldel(p)) {
        vf_foreign_frees++;
#if !defined(__SANITIZE_ADDRESS__)
        /* plain build: a free() of something the library never allocated (or already
         * freed) would corrupt the heap; count it and skip the real free */
        return;
#endif
    }
    __real_free(p);
}
