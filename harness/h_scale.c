/* h_scale.c - the containers at scale and after long histories (C01-C10): what the small-universe
 * harnesses cannot reach - hundreds of thousands of elements, values of 4 KiB / 64 KiB / 1 MiB, counters
 * beyond 255 / 65535, objects emptied and reused after a long life.  Keys and values are procedural
 * (key i = "key-%07d", value = f(i, version)), so the reference model is an array of versions and every
 * result is recomputed from (i, version) instead of being stored.
 * One case = one container configuration driven through build / full audit / partial removal / re-put /
 * drain / reuse; the oracle of the property under check reports, the oracles of the sibling properties
 * only count (other_property_oracle_mismatch) and never stop the case.
 */
#define _GNU_SOURCE
#include <stdlib.h>
#include <string.h>
#include <errno.h>
#include <unistd.h>
#include <inttypes.h>
#include "qlibc.h"
#include "vfc.h"
#include "ref_hash.h"

static int P;
static rng_t R;
static int N;                  /* universe size of the case */
static int *VER;               /* model: 0 = absent, else version of the stored value */
static long MN;                /* present keys */
static unsigned char *XB; static size_t XBCAP;   /* expected-value scratch */
static bool dead;              /* the property's own oracle fired: stop the case */

static bool judge(const char *prop, const char *key, const char *fmt, ...) __attribute__((format(printf, 3, 4)));
static bool judge(const char *prop, const char *key, const char *fmt, ...) {
    char msg[600]; va_list ap; va_start(ap, fmt); vsnprintf(msg, sizeof msg, fmt, ap); va_end(ap);
    if (!strcmp(prop, VF.prop)) { char k[96]; snprintf(k, sizeof k, "scale:%s", key); vf_viol(prop, k, "%s", msg); dead = true; return true; }
    vf_count("other_property_oracle_mismatch", 1);
    return true;
}

static void kname(int i, char *out) { snprintf(out, 24, "key-%07d", i); }
static int kid(const char *name, size_t n) { if (n < 11 || memcmp(name, "key-", 4)) return -1; int v = 0; for (int j = 4; j < 11; j++) { if (name[j] < '0' || name[j] > '9') return -1; v = v * 10 + (name[j] - '0'); } return v; }
static int BIGMODE = 1;        /* 0: values up to 48 bytes only */
static size_t vlen(int i, int ver) {
    uint32_t h = (uint32_t)i * 2654435761u + (uint32_t)ver * 40503u; h ^= h >> 15;
    if (BIGMODE) {
        if (i == 1 && BIGMODE > 1) return (1u << 20) + 1 + (size_t)ver;
        if (i % 30011 == 17) return 65536 + 3 + (size_t)ver;
        if (i % 997 == 5) return 4096 + h % 9;
    }
    return 1 + h % 48;
}
static void vfill(unsigned char *b, int i, int ver, size_t n) { uint32_t x = (uint32_t)i * 131u + (uint32_t)ver * 29u; for (size_t j = 0; j < n; j++) b[j] = (unsigned char)(x + j * 7 + (j >> 8)); }
static unsigned char *expect(int i, int ver, size_t *n) {
    *n = vlen(i, ver);
    if (*n > XBCAP) { XBCAP = *n + 64; XB = vf_xrealloc(XB, XBCAP); }
    vfill(XB, i, ver, *n); return XB;
}
static bool val_is(const void *d, size_t sz, int i, int ver) { size_t n; unsigned char *e = expect(i, ver, &n); return d && sz == n && !memcmp(d, e, n); }
/* insertion orders: 0 ascending, 1 descending, 2 multiplicative permutation */
static int ORDER; static uint64_t PA, PB;
static uint64_t gcd64(uint64_t a, uint64_t b) { while (b) { uint64_t t = a % b; a = b; b = t; } return a; }
static void order_init(int order, uint64_t salt) { ORDER = order; PA = ((uint64_t)N * 61803 / 100000 + salt * 2 + 1) % (uint64_t)N; if (PA < 2) PA = 1; while (gcd64(PA, (uint64_t)N) != 1) PA++; PB = (salt * 7919) % (uint64_t)N; }
static int ord(int k) { return ORDER == 0 ? k : ORDER == 1 ? N - 1 - k : (int)(((uint64_t)k * PA + PB) % (uint64_t)N); }
static void model_new(int n) { N = n; VER = hm_alloc(sizeof(int) * (size_t)n); memset(VER, 0, sizeof(int) * (size_t)n); MN = 0; dead = false; }
static void model_free(void) { hm_free(VER); VER = NULL; }
static void ledger_verdict(const char *what, long mark) {
    long live = vf_ledger_live_since(mark);
    vf_count("containers_released", 1);
    if (live) judge("C11", "leak", "%ld block(s) of the %s still live after free()", live, what); else vf_count("containers_released_leak_free", 1);
    if (vf_foreign_frees) { judge("C11", "bad-free", "%s: free() of a pointer the library never allocated", what); vf_foreign_frees = 0; }
}

/* =================================================================== tree table (C01-C04) */
static qtreetbl_t *T;
typedef struct { long nodes; const char *why; int height; qtreetbl_obj_t *prev; } tw_t;
static int tw_rec(qtreetbl_obj_t *o, tw_t *w, int depth, bool parent_red) {
    if (!o) return 0;
    if (depth > 200) { w->why = "depth>200 (cycle?)"; return -1; }
    if (depth > w->height) w->height = depth;
    if (o->red && parent_red) { w->why = "red node with red child"; return -1; }
    bool lr = o->left && o->left->red, rr = o->right && o->right->red;
    if (rr && !lr) { w->why = "right-leaning lone red link"; return -1; }
    int a = tw_rec(o->left, w, depth + 1, o->red); if (a < 0) return -1;
    w->nodes++;
    if (!o->name || !o->namesize) { w->why = "node without key"; return -1; }
    if (w->prev && qtreetbl_byte_cmp(w->prev->name, w->prev->namesize, o->name, o->namesize) >= 0) { w->why = "search order"; return -1; }
    w->prev = o;
    int b = tw_rec(o->right, w, depth + 1, o->red); if (b < 0) return -1;
    if (a != b) { w->why = "unequal black height"; return -1; }
    return a + (o->red ? 0 : 1);
}
static void tree_structure(void) {
    if (dead) return;
    tw_t w = {0, NULL, 0, NULL};
    if (T->root && T->root->red) w.why = "red root";
    int bh = w.why ? -1 : tw_rec(T->root, &w, 1, false);
    vf_count("structure_checks", 1); vf_count("structure_nodes_walked", w.nodes);
    if (bh < 0) { judge("C02", "llrb-invariant", "independent walker: %s (n=%ld)", w.why, MN); return; }
    if ((size_t)w.nodes != T->num) { judge("C02", "node-count", "walker counted %ld nodes, table says %zu", w.nodes, T->num); return; }
    if ((1ULL << ((w.height + 1) / 2)) > (unsigned long long)(MN + 1) * 2) { judge("C02", "height", "height %d with n=%ld exceeds 2*log2(n+1)", w.height, MN); return; }
    int rc = qtreetbl_check(T);
    if (rc != 0) { judge("C02", "self-check-disagrees", "qtreetbl_check()=%d while the independent walker accepts the tree", rc); return; }
    vf_max("max_height", w.height); vf_max("max_keys_in_table", MN);
}
static void tree_get1(int i) {
    char nm[24]; kname(i, nm); size_t sz = 4242; errno = 0;
    void *d = (i & 1) ? T->get(T, nm, &sz, false) : T->getobj(T, nm, strlen(nm) + 1, &sz, false);
    vf_count("gets_compared", 1);
    if (i < N && VER[i]) { if (!d) judge("C01", "key-lost", "key %d vanished (n=%ld)", i, MN); else if (!val_is(d, sz, i, VER[i])) judge("C01", "value-changed", "key %d holds a wrong value (size %zu, expected %zu)", i, sz, vlen(i, VER[i])); }
    else if (d) judge("C01", "phantom-key", "absent key %d found", i);
    else if (errno != ENOENT) judge("C01", "get-errno", "get of absent key %d: errno=%d", i, errno);
}
static int first_present(void) { for (int i = 0; i < N; i++) if (VER[i]) return i; return -1; }
static int last_present(void) { for (int i = N - 1; i >= 0; i--) if (VER[i]) return i; return -1; }
static void tree_content(bool full) {
    if (dead) return;
    vf_count("content_compares", 1);
    if (T->size(T) != (size_t)MN) { judge("C01", "size", "size()=%zu model=%ld", T->size(T), MN); return; }
    if (full) { for (int i = 0; i < N + 3 && !dead; i++) tree_get1(i); }
    else for (int k = 0; k < 2000 && !dead; k++) tree_get1((int)rng_below(&R, (uint32_t)N + 3));
    if (dead) return;
    int lo = first_present(), hi = last_present(); char nm[24]; size_t ns = 0;
    void *mn = T->find_min(T, &ns);
    if (lo < 0) { if (mn) judge("C01", "find_min", "find_min on an empty table returned a key"); }
    else { kname(lo, nm); if (!mn || ns != strlen(nm) + 1 || memcmp(mn, nm, ns)) judge("C01", "find_min", "find_min returned %s, expected %s", mn ? (char *)mn : "(null)", nm); }
    free(mn); ns = 0;
    void *mx = T->find_max(T, &ns);
    if (hi < 0) { if (mx) judge("C01", "find_max", "find_max on an empty table returned a key"); }
    else { kname(hi, nm); if (!mx || ns != strlen(nm) + 1 || memcmp(mx, nm, ns)) judge("C01", "find_max", "find_max returned %s, expected %s", mx ? (char *)mx : "(null)", nm); }
    free(mx);
}
static void tree_walk(bool newmem) {
    if (dead) return;
    qtreetbl_obj_t o; memset(&o, 0, sizeof o); long cnt = 0; int prev = -1;
    vf_cpu_arm_prop("C03", "qtreetbl_getnext(walk)", 60000);
    T->lock(T);
    while (T->getnext(T, &o, newmem)) {
        int i = kid(o.name, o.namesize); bool bad = false;
        if (i < 0 || i >= N || o.namesize != 12 || !VER[i]) { judge("C03", "walk-foreign", "walk returned a key that is not stored (element %ld)", cnt); bad = true; }
        else if (i <= prev) { judge("C03", "walk-order", "walk returned key %d after key %d", i, prev); bad = true; }
        else if (!val_is(o.data, o.datasize, i, VER[i])) { judge("C03", "walk-value", "walk returned a wrong value for key %d (size %zu)", i, o.datasize); bad = true; }
        if (newmem) { free(o.name); free(o.data); }
        prev = i; cnt++;
        if (bad || cnt > MN + 1) break;
    }
    T->unlock(T);
    vf_cpu_disarm();
    if (!dead && cnt != MN) judge("C03", "walk-count", "walk returned %ld of %ld keys", cnt, MN);
    if (!dead) { vf_count("walks_audited", 1); vf_count("walk_elements_compared", cnt); }
}
static void tree_nearest(int probes, int continuations) {
    for (int k = 0; k < probes && !dead; k++) {
        int i = (int)rng_below(&R, (uint32_t)N); int kind = (int)rng_below(&R, 4); char nm[32]; size_t nl;
        if (k == 0) { snprintf(nm, sizeof nm, "key-"); nl = 5; i = -1; kind = 9; }              /* below every key */
        else if (k == 1) { snprintf(nm, sizeof nm, "key-9999999z"); nl = 13; i = N - 1; kind = 1; }   /* above every key */
        else if (kind == 0) { kname(i, nm); nl = 12; }                                           /* a key of the universe, stored or not */
        else { snprintf(nm, sizeof nm, "key-%07d!", i); nl = 13; }                                /* just above key i */
        int want = i; if (kind == 0 && i >= 0 && VER[i]) want = i; else { while (want >= 0 && !VER[want]) want--; if (kind == 0 && want == i) want = i; }
        if (want < 0) want = first_present();
        vf_cpu_arm_prop("C04", "qtreetbl_find_nearest", 5000);
        errno = 0; bool newmem = (k & 1);
        qtreetbl_obj_t o = T->find_nearest(T, nm, nl, newmem);
        vf_cpu_disarm();
        vf_count("probes", 1);
        if (want < 0) { if (o.name) judge("C04", "nearest-on-empty", "find_nearest on an empty table returned a key"); continue; }
        int got = o.name ? kid(o.name, o.namesize) : -1;
        if (got != want) judge("C04", "nearest-wrong", "find_nearest(%s) returned key %d, floor semantics give %d (n=%ld)", nm, got, want, MN);
        else if (!val_is(o.data, o.datasize, want, VER[want])) judge("C04", "nearest-value", "find_nearest(%s) returned a wrong value for key %d", nm, want);
        if (!dead && k < continuations) {     /* complete continuation: every stored key exactly once */
            unsigned char *seen = hm_alloc((size_t)N); memset(seen, 0, (size_t)N); long cnt = 0;
            qtreetbl_obj_t c = o;
            vf_cpu_arm_prop("C04", "qtreetbl_getnext(continuation)", 60000);
            while (T->getnext(T, &c, false)) { int j = kid(c.name, c.namesize);
                if (j < 0 || j >= N || !VER[j]) { judge("C04", "continuation-foreign", "continuation returned a key that is not stored"); break; }
                if (seen[j]) { judge("C04", "continuation-duplicate", "continuation visited key %d twice", j); break; }
                seen[j] = 1; if (++cnt > MN + 1) break; }
            vf_cpu_disarm();
            if (!dead && cnt != MN) judge("C04", "continuation-missed", "continuation visited %ld of %ld keys", cnt, MN);
            if (!dead) vf_count("continuations_audited", 1);
            hm_free(seen);
        }
        if (newmem) { free(o.name); free(o.data); }
    }
}
/* cheap edge probes after every put of the build phase: below the minimum and above the maximum (deep left/right spines exist only in narrow size windows) */
static int CURLO = -1, CURHI = -1; static bool EDGE;
static void tree_edge_probes(void) {
    if (dead || CURLO < 0) return;
    qtreetbl_obj_t o = T->find_nearest(T, "key-", 5, false); int got = o.name ? kid(o.name, o.namesize) : -1;
    if (got != CURLO) { judge("C04", "nearest-wrong", "find_nearest(below every key) returned key %d, the smallest stored key is %d (n=%ld)", got, CURLO, MN); return; }
    o = T->find_nearest(T, "key-9999999z", 13, false); got = o.name ? kid(o.name, o.namesize) : -1;
    if (got != CURHI) { judge("C04", "nearest-wrong", "find_nearest(above every key) returned key %d, the greatest stored key is %d (n=%ld)", got, CURHI, MN); return; }
    vf_count("edge_probes", 2);
}
static void tree_put(int i, int ver) {
    char nm[24]; kname(i, nm); size_t n; unsigned char *v = expect(i, ver, &n);
    bool r = (i % 3 == 0) ? T->putobj(T, nm, strlen(nm) + 1, v, n) : T->put(T, nm, v, n);
    if (!r) { judge("C01", "put-failed", "put of key %d (value %zu bytes) failed, errno=%d", i, n, errno); return; }
    if (!VER[i]) MN++; VER[i] = ver; vf_count("evaluations", 1);
    if (EDGE) { if (CURLO < 0 || i < CURLO) CURLO = i; if (i > CURHI) CURHI = i; tree_edge_probes(); }
}
static void tree_remove(int i) {
    char nm[24]; kname(i, nm);
    bool r = (i & 1) ? T->remove(T, nm) : T->removeobj(T, nm, strlen(nm) + 1);
    if (r != (VER[i] != 0)) judge("C01", "remove-result", "remove of %s key %d returned %d", VER[i] ? "present" : "absent", i, r);
    if (VER[i]) { VER[i] = 0; MN--; } vf_count("evaluations", 1);
}
static void tree_audit(bool full) { tree_content(full); tree_structure(); if (full) { tree_walk(false); tree_nearest(400, 2); } }
static void scale_tree(long caseno, int n, int order, bool ts) {
    vf_case_begin(caseno, "tree table at scale: %d keys, insertion order %d, threadsafe=%d", n, order, ts);
    rng_seed(&R, VF.seed, (uint64_t)caseno);
    model_new(n); order_init(order, VF.seed + (uint64_t)caseno); BIGMODE = 2;
    long mark = vf_ledger_mark();
    T = qtreetbl(ts ? QTREETBL_THREADSAFE : 0); if (!T) exit(2);
    EDGE = true; CURLO = CURHI = -1;
    for (int k = 0; k < N && !dead; k++) { tree_put(ord(k), 1); if ((k + 1) % (N / 6 + 1) == 0) tree_audit(false); }
    EDGE = false;
    tree_audit(true);
    if (!dead) tree_walk(true);
    /* removing the smallest / greatest key of a freshly built tree reshapes whole spines (the deepest legal trees come from here) */
    if (!dead) { int lo = first_present(); tree_remove(lo); tree_audit(true); int hi = last_present(); tree_remove(hi); tree_audit(true); tree_put(lo, 2); tree_put(hi, 2); tree_audit(false); }
    /* thin out: every third key of another order, absent keys too */
    order_init(2, VF.seed + 5 + (uint64_t)caseno);
    for (int k = 0; k < N && !dead; k += 3) { tree_remove(ord(k)); if (k % 30 == 0) tree_remove(ord(k)); }
    tree_audit(true);
    /* new versions (other lengths) for half of what is left, fresh keys for some holes */
    for (int k = 1; k < N && !dead; k += 2) { int i = ord(k); if (VER[i]) tree_put(i, VER[i] + 1); else if (k % 7 == 1) tree_put(i, 1); }
    tree_audit(true);
    /* many put/remove cycles on the same object */
    for (int c = 0; c < 4 && !dead; c++) { for (int k = c; k < N && !dead; k += 5) { int i = ord(k); if (VER[i]) tree_remove(i); else tree_put(i, 3 + c); } tree_audit(false); }
    tree_audit(true);
    /* drain completely, then reuse the object */
    order_init(order == 0 ? 1 : 0, 0);
    for (int k = 0; k < N && !dead; k++) if (VER[ord(k)]) tree_remove(ord(k));
    tree_audit(true);
    for (int k = 0; k < 1000 && k < N && !dead; k++) tree_put(ord(k * 3 % N), 9);
    tree_audit(true);
    if (ts && !dead && !vf_lock_probe(T->qmutex)) judge(VF.prop, "unusable-for-other-threads", "a second thread can not take the lock of the table after the history");
    vf_distinct("distinct", vf_hash(&n, sizeof n, VF_H0) * 31 + (uint64_t)order * 2 + ts);
    T->free(T); T = NULL;
    ledger_verdict("tree table", mark);
    model_free();
    vf_sample("tree table: %d keys built in order %d, audited (every key read, full walk, LLRB walker, 400 nearest probes) after build / thinning / re-put / 4 churn rounds / drain / reuse", n, order);
}

/* keys of 64 KiB and more that differ only in their last bytes (binary keys through putobj) */
static void tree_long_keys(long caseno, int n, size_t klen) {
    vf_case_begin(caseno, "tree table with %d keys of %zu bytes", n, klen);
    rng_seed(&R, VF.seed, (uint64_t)caseno); dead = false;
    long mark = vf_ledger_mark();
    T = qtreetbl(0); if (!T) exit(2);
    unsigned char *kb = hm_alloc(klen); memset(kb, 'k', klen); int *ver = hm_alloc(sizeof(int) * (size_t)n); memset(ver, 0, sizeof(int) * (size_t)n); long mn = 0;
#define LK(i) (kb[klen - 2] = (unsigned char)((i) >> 8), kb[klen - 1] = (unsigned char)(i))
    for (int step = 0; step < n * 6 && !dead; step++) { int i = (int)rng_below(&R, (uint32_t)n); LK(i); vf_count("evaluations", 1);
        if (rng_chance(&R, 2, 3)) { int v = ver[i] + 1; unsigned char val[8]; memset(val, v, sizeof val); val[0] = (unsigned char)i;
            if (!T->putobj(T, kb, klen, val, sizeof val)) { judge("C01", "put-failed", "put of a %zu-byte key failed errno=%d", klen, errno); break; } if (!ver[i]) mn++; ver[i] = v; }
        else { bool r = T->removeobj(T, kb, klen); if (r != (ver[i] != 0)) { judge("C01", "remove-result", "remove of %s %zu-byte key %d returned %d", ver[i] ? "present" : "absent", klen, i, r); break; } if (ver[i]) { ver[i] = 0; mn--; } }
        if (step % 16 == 15 || step == n * 6 - 1) {
            if (T->size(T) != (size_t)mn) { judge("C01", "size", "size()=%zu model=%ld (keys of %zu bytes)", T->size(T), mn, klen); break; }
            for (int j = 0; j < n && !dead; j++) { LK(j); size_t sz = 0; unsigned char *d = T->getobj(T, kb, klen, &sz, false);
                if (ver[j]) { if (!d) judge("C01", "key-lost", "%zu-byte key %d vanished", klen, j); else if (sz != 8 || d[0] != (unsigned char)j || d[1] != (unsigned char)ver[j]) judge("C01", "value-changed", "%zu-byte key %d holds a wrong value", klen, j); }
                else if (d) judge("C01", "phantom-key", "absent %zu-byte key %d found", klen, j); }
            MN = mn; tree_structure();
            if (!dead) { qtreetbl_obj_t o; memset(&o, 0, sizeof o); long cnt = 0; int prev = -1;
                while (T->getnext(T, &o, false)) { int j = o.namesize == klen ? (((unsigned char *)o.name)[klen - 2] << 8 | ((unsigned char *)o.name)[klen - 1]) : -1;
                    if (j < 0 || j >= n || !ver[j] || j <= prev) { judge("C03", "walk-order", "walk over %zu-byte keys returned key %d after %d (stored size %zu)", klen, j, prev, o.namesize); break; } prev = j; if (++cnt > mn) break; }
                if (!dead && cnt != mn) judge("C03", "walk-count", "walk over %zu-byte keys returned %ld of %ld", klen, cnt, mn); else vf_count("walks_audited", 1); }
            if (!dead && mn) { int i2 = (int)rng_below(&R, (uint32_t)n); LK(i2); int want = i2; while (want >= 0 && !ver[want]) want--; if (want < 0) for (want = 0; !ver[want]; want++) ;
                qtreetbl_obj_t o = T->find_nearest(T, kb, klen, false); int got = (o.name && o.namesize == klen) ? (((unsigned char *)o.name)[klen - 2] << 8 | ((unsigned char *)o.name)[klen - 1]) : -1;
                if (got != want) judge("C04", "nearest-wrong", "find_nearest among %zu-byte keys returned key %d, expected %d", klen, got, want); vf_count("probes", 1); }
        } }
#undef LK
    vf_count("long_key_tables", 1); vf_distinct("distinct", vf_hash(&klen, sizeof klen, VF_H0) + (uint64_t)n);
    T->free(T); T = NULL; ledger_verdict("tree table", mark); hm_free(kb); hm_free(ver);
    vf_sample("tree table: %d binary keys of %zu bytes differing in the last two bytes: %d random puts/removes, every key re-read, LLRB walker, walk and nearest probe after every 16th", n, klen, n * 6);
}

#include "h_scale_more.inc"

int main(int argc, char **argv) {
    vf_init(argc, argv, "h_scale");
    P = atoi(VF.prop + 1);
    vf_ledger_enable(true);
    long big = vf_arg_long("n", 300007);
    long c = 0;
    if (P >= 1 && P <= 4) {
        int sizes[3] = {(int)big, 70001, 300};
        for (int s = 0; s < 3; s++) for (int o = 0; o < 3; o++, c++) if (vf_mine(c)) scale_tree(c, sizes[s], o, (c & 1) != 0);
        static const size_t KL[4] = {65536, 65560, 131073, 4097};
        for (int s = 0; s < 4; s++, c++) if (vf_mine(c)) tree_long_keys(c, 300, KL[s]);
    } else if (P == 11) {   /* memory-safety build: every container kind at a moderate size plus the huge-element vectors */
        int n = (int)vf_arg_long("n11", 20011);
        if (vf_mine(c)) scale_tree(c, n, 2, false); c++;
        if (vf_mine(c)) scale_tree(c, n, 1, true); c++;
        if (vf_mine(c)) tree_long_keys(c, 60, 65560); c++;
        if (vf_mine(c)) scale_hash(c, n, 0, 2, false); c++;
        if (vf_mine(c)) scale_hash(c, n / 4, 7, 0, true); c++;
        if (vf_mine(c)) scale_hasharr(c, n, 2); c++;
        if (vf_mine(c)) scale_listtbl(c, n, 0, 1500); c++;
        if (vf_mine(c)) scale_listtbl(c, n / 4, QLISTTBL_INSERTTOP | QLISTTBL_LOOKUPFORWARD, 1500); c++;
        if (vf_mine(c)) scale_list(c, 70001, false); c++;
        if (vf_mine(c)) scale_queue_stack_grow(c, 70001); c++;
        if (vf_mine(c)) scale_vector(c, 70001 * 2, 1, QVECTOR_RESIZE_DOUBLE, 0, false); c++;
        if (vf_mine(c)) scale_vector(c, n, 64, QVECTOR_RESIZE_LINEAR, 16, true); c++;
        if (vf_mine(c)) scale_vector(c, 40, 3u << 20, QVECTOR_RESIZE_EXACT, 0, false); c++;
        if (vf_mine(c)) scale_vector(c, 3, 16u << 20, QVECTOR_RESIZE_DOUBLE, 0, false); c++;
        if (vf_mine(c)) scale_vector(c, 3, 16u << 20, QVECTOR_RESIZE_EXACT, 2, true); c++;
    } else if (!scale_more(big)) { fprintf(stderr, "h_scale: unsupported property %s\n", VF.prop); return 2; }
    return vf_finish() ? 1 : 0;
}
